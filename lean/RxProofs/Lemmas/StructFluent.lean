import RxModel.StructFluent
/-!
# Soundness of the fluent-table row check (`Struct.Fluent.ok`)

If a row passes `directOk`, then for every value type, every interpretation of default
expressions and every argument environment, the operator application built by the method body
(`fluentDirect`) and the one built by calling the operator with the same arguments (`pipedApp`)
are equal whenever both calls are valid.
-/

namespace Struct.Fluent

theorem mapM_option_agree {α β : Type} (f g : α → Option β) :
    ∀ (l : List α) (a b : List β), l.mapM f = some a → l.mapM g = some b →
      (∀ q ∈ l, ∀ x y, f q = some x → g q = some y → x = y) → a = b := by
  intro l
  induction l with
  | nil => intro a b ha hb _; simp at ha hb; subst ha; subst hb; rfl
  | cons q qs ih =>
    intro a b ha hb h
    rw [List.mapM_cons] at ha hb
    cases hfq : f q with
    | none => simp [hfq] at ha
    | some x =>
      cases hgq : g q with
      | none => simp [hgq] at hb
      | some y =>
        cases hfa : qs.mapM f with
        | none => simp [hfq, hfa] at ha
        | some a' =>
          cases hgb : qs.mapM g with
          | none => simp [hgq, hgb] at hb
          | some b' =>
            simp [hfq, hfa] at ha
            simp [hgq, hgb] at hb
            subst ha; subst hb
            have hxy := h q (by simp) x y hfq hgq
            have := ih a' b' hfa hgb (fun q' hq' => h q' (by simp [hq']))
            rw [hxy, this]

theorem paramByName_of_mem (ps : List Param) (hnd : (ps.map (·.name)).Nodup) (p : Param) (hp : p ∈ ps) :
    paramByName ps p.name = some p := by
  induction ps with
  | nil => cases hp
  | cons a as ih =>
    simp only [List.map_cons, List.nodup_cons] at hnd
    simp only [paramByName, List.find?_cons]
    rcases List.mem_cons.mp hp with h | h
    · subst h; simp
    · have hne : a.name ≠ p.name := by
        intro heq
        apply hnd.1
        rw [heq]
        exact List.mem_map_of_mem h
      have : (a.name == p.name) = false := by simpa using hne
      rw [this]
      exact ih hnd.2 h

theorem corrInv_mem (sig mps : List Param) (q p' : Param) (h : corrInv sig mps q = some p') :
    p' ∈ mps ∧ (q.kind = .pos → p'.kind = .pos) ∧ (q.kind = .kwonly → p'.kind = .kwonly) ∧
      (q.kind = .vararg → p'.kind = .vararg) := by
  unfold corrInv at h
  cases hk : q.kind <;> simp only [hk] at h
  · -- pos
    cases hi : posIndex sig q.name with
    | none => simp [hi] at h
    | some i =>
      simp only [hi, Option.bind_some] at h
      have hm : p' ∈ posParams mps := List.mem_of_getElem? h
      simp only [posParams, List.mem_filter] at hm
      refine ⟨hm.1, fun _ => ?_, by simp, by simp⟩
      simpa using hm.2
  · -- kwonly
    have hm := List.find?_some h
    have hmem := List.mem_of_find?_eq_some h
    simp only [Bool.and_eq_true] at hm
    refine ⟨hmem, by simp, fun _ => ?_, by simp⟩
    simpa using hm.1
  · -- vararg
    have hm := List.find?_some h
    have hmem := List.mem_of_find?_eq_some h
    refine ⟨hmem, by simp, by simp, fun _ => ?_⟩
    simpa using hm
  · -- varkw
    have hmem := List.mem_of_find?_eq_some h
    exact ⟨hmem, by simp, by simp, by simp⟩

section
variable {V : Type} [DecidableEq V] (const : String → V)

omit [DecidableEq V] in
theorem resolveName_of_mem (mps : List Param) (hnd : (mps.map (·.name)).Nodup) (env : String → Option V)
    (p : Param) (hp : p ∈ mps) : resolveName const mps env p.name = p.resolve const env := by
  simp [resolveName, paramByName_of_mem mps hnd p hp]

/-- the per-parameter heart of the argument: under `paramOk`, with the guards of the branch
holding, the value the body passes for operator parameter `q` is the value `q` gets when the
operator is called with the same arguments. -/
theorem param_agree (sig mps : List Param) (hnd : (mps.map (·.name)).Nodup) (env : String → Option V)
    (b : Branch) (hg : b.guards.all (guardHolds const mps env) = true)
    (q : Param) (hok : paramOk sig mps b q = true) (x y : String × V)
    (hx : bindParam const sig mps env b.call q = some x)
    (hy : pipedParam const sig mps env q = some y) : x = y := by
  unfold paramOk at hok
  unfold bindParam at hx
  unfold pipedParam at hy
  cases harg : argFor sig b.call q with
  | none =>
    simp only [harg] at hok hx
    cases hc : corrInv sig mps q with
    | none =>
      simp only [hc, Option.bind_none] at hy
      rw [hx] at hy; exact Option.some.inj hy
    | some p' =>
      simp only [hc] at hok
      simp only [hc, Option.bind_some] at hy
      -- dropped under a guard
      have hq : ∃ d, q.dflt = some d ∧ (q.kind = .pos ∨ q.kind = .kwonly) ∧
          b.guards.contains (Guard.isVal p'.name d) = true := by
        cases hk : q.kind <;> cases hd : q.dflt <;> simp [hk, hd] at hok
        · exact ⟨_, rfl, Or.inl rfl, by simpa using hok⟩
        · exact ⟨_, rfl, Or.inr rfl, by simpa using hok⟩
      obtain ⟨d, hd, hk, hmem⟩ := hq
      have hqd : q.default const = some (const d) := by
        rcases hk with hk | hk <;> simp [Param.default, hk, hd]
      have hgd : guardHolds const mps env (Guard.isVal p'.name d) = true := by
        have := List.all_eq_true.mp hg (Guard.isVal p'.name d) (by simpa using hmem)
        exact this
      have ⟨hpm, _, _, _⟩ := corrInv_mem sig mps q p' hc
      simp only [guardHolds, resolveName_of_mem const mps hnd env p' hpm] at hgd
      rw [hqd] at hx
      simp only [Option.map_some, Option.some.injEq] at hx
      cases he : env p'.name with
      | none =>
        simp only [he, hqd, Option.map_some, Option.some.injEq] at hy
        rw [← hx, ← hy]
      | some v =>
        simp only [he, Option.some.injEq] at hy
        simp only [Param.resolve, he] at hgd
        have : v = const d := by simpa using hgd
        rw [← hx, ← hy, this]
  | some a =>
    simp only [harg] at hok hx
    cases hc : corrInv sig mps q with
    | none => cases a <;> simp [hc] at hok
    | some p' =>
      simp only [hc] at hok
      simp only [hc, Option.bind_some] at hy
      have ⟨hpm, hkp, hkk, hkv⟩ := corrInv_mem sig mps q p' hc
      cases a with
      | other s => simp at hok
      | param p =>
        simp only [Bool.and_eq_true, beq_iff_eq, bne_iff_ne, ne_eq] at hok
        obtain ⟨⟨⟨hpn, hnv⟩, hnk⟩, hdc⟩ := hok
        subst hpn
        simp only [evalArg, resolveName_of_mem const mps hnd env p' hpm] at hx
        cases he : env p'.name with
        | some v =>
          simp only [Param.resolve, he, Option.map_some, Option.some.injEq] at hx
          simp only [he, Option.some.injEq] at hy
          rw [← hx, ← hy]
        | none =>
          simp only [Param.resolve, he] at hx
          simp only [he] at hy
          -- both defaults are used: they are equal texts
          have hkq : q.kind = .pos ∨ q.kind = .kwonly := by
            cases hk : q.kind <;> simp_all
          have hp'k : p'.kind = .pos ∨ p'.kind = .kwonly := by
            rcases hkq with h | h
            · exact Or.inl (hkp h)
            · exact Or.inr (hkk h)
          have hpd : p'.default const = p'.dflt.map const := by
            rcases hp'k with h | h <;> simp [Param.default, h]
          have hqd : q.default const = q.dflt.map const := by
            rcases hkq with h | h <;> simp [Param.default, h]
          rw [hpd] at hx; rw [hqd] at hy
          cases hd1 : p'.dflt with
          | none => simp [hd1] at hx
          | some d1 =>
            cases hd2 : q.dflt with
            | none => simp [hd2] at hy
            | some d2 =>
              simp only [defaultsCompat, hd1, hd2, beq_iff_eq] at hdc
              simp only [hd1, Option.map_some, Option.some.injEq] at hx
              simp only [hd2, Option.map_some, Option.some.injEq] at hy
              rw [← hx, ← hy, hdc]
      | star p =>
        simp only [Bool.and_eq_true, beq_iff_eq] at hok
        obtain ⟨hpn, hqv⟩ := hok
        subst hpn
        simp only [evalArg, resolveName_of_mem const mps hnd env p' hpm] at hx
        have hp'v := hkv hqv
        cases he : env p'.name with
        | some v =>
          simp only [Param.resolve, he, Option.map_some, Option.some.injEq] at hx
          simp only [he, Option.some.injEq] at hy
          rw [← hx, ← hy]
        | none =>
          simp only [Param.resolve, he, Param.default, hp'v, Option.map_some, Option.some.injEq] at hx
          simp only [he, Param.default, hqv, Option.map_some, Option.some.injEq] at hy
          rw [← hx, ← hy]

/-- **Soundness of `directOk`.** -/
theorem direct_sound (ops : List OpSig) (opName mname : String) (m : Method)
    (hok : directOk ops opName mname m = true) (sig : OpSig)
    (hsig : ops.find? (fun s => s.name == opName) = some sig)
    (env : String → Option V) (a a' : App V)
    (hf : fluentDirect const ops m env = some a)
    (hp : pipedApp const sig m.params env = some a') : a = a' := by
  unfold directOk at hok
  simp only [hsig, Bool.and_eq_true] at hok
  obtain ⟨⟨_, hnd⟩, ⟨⟨⟨⟨_, hbr⟩, _⟩, _⟩, _⟩⟩ := hok
  have hnd' : (m.params.map (·.name)).Nodup := by simpa [namesDistinct] using hnd
  have hsn : sig.name = opName := by
    have := List.find?_some hsig
    simpa using this
  unfold fluentDirect at hf
  split at hf
  case isFalse => cases hf
  case isTrue hc =>
    cases hsel : selectBranch const m.params env m.branches with
    | none => simp [hsel] at hf
    | some b =>
      simp only [hsel] at hf
      have hbmem : b ∈ m.branches := List.mem_of_find?_eq_some hsel
      have hbg : b.guards.all (guardHolds const m.params env) = true := by
        unfold selectBranch at hsel
        exact List.find?_some (p := fun (b : Branch) => b.guards.all (guardHolds const m.params env)) hsel
      have hbok := List.all_eq_true.mp hbr b hbmem
      unfold branchOk at hbok
      simp only [Bool.and_eq_true, beq_iff_eq] at hbok
      obtain ⟨⟨⟨htgt, _⟩, _⟩, hpar⟩ := hbok
      rw [htgt] at hf
      simp only at hf
      have hfind : ops.find? (fun s => s.name == sig.name) = some sig := by rw [hsn]; exact hsig
      rw [hfind] at hf
      by_cases hshape : callShapeOk sig.params b.call = true
      case neg => simp [applyCall, hshape] at hf
      case pos =>
        simp only [applyCall, hshape, if_true] at hf
        cases hargs : sig.params.mapM (bindParam const sig.params m.params env b.call) with
        | none => simp [hargs] at hf
        | some args =>
          simp only [hargs, Option.map_some, Option.some.injEq] at hf
          unfold pipedApp at hp
          by_cases hcorr : (m.params.all fun p => (env p.name).isNone || (corr sig.params m.params p).isSome) = true
          case neg => simp [hcorr] at hp
          case pos =>
            simp only [hcorr, if_true] at hp
            cases hargs' : sig.params.mapM (pipedParam const sig.params m.params env) with
            | none => simp [hargs'] at hp
            | some args' =>
              simp only [hargs', Option.map_some, Option.some.injEq] at hp
              have : args = args' :=
                mapM_option_agree _ _ sig.params args args' hargs hargs' (fun q hq x y hx hy =>
                  param_agree const sig.params m.params hnd' env b hbg q
                    (List.all_eq_true.mp hpar q hq) x y hx hy)
              rw [← hf, ← hp, this]

/-- the operator a passing row applies is the one named like the method (or its documented alias) -/
theorem direct_op_name (ops : List OpSig) (opName mname : String) (m : Method)
    (hok : directOk ops opName mname m = true) (env : String → Option V) (a : App V)
    (hf : fluentDirect const ops m env = some a) : a.op = opName := by
  unfold directOk at hok
  cases hsig : ops.find? (fun s => s.name == opName) with
  | none => simp [hsig] at hok
  | some sig =>
    simp only [hsig, Bool.and_eq_true] at hok
    obtain ⟨_, ⟨⟨⟨⟨_, hbr⟩, _⟩, _⟩, _⟩⟩ := hok
    have hsn : sig.name = opName := by
      have := List.find?_some hsig
      simpa using this
    unfold fluentDirect at hf
    split at hf
    case isFalse => cases hf
    case isTrue hc =>
      cases hsel : selectBranch const m.params env m.branches with
      | none => simp [hsel] at hf
      | some b =>
        simp only [hsel] at hf
        have hbmem : b ∈ m.branches := List.mem_of_find?_eq_some hsel
        have hbok := List.all_eq_true.mp hbr b hbmem
        unfold branchOk at hbok
        simp only [Bool.and_eq_true, beq_iff_eq] at hbok
        obtain ⟨⟨⟨htgt, _⟩, _⟩, _⟩ := hbok
        rw [htgt] at hf
        simp only at hf
        cases hfind : ops.find? (fun s => s.name == sig.name) with
        | none => simp [hfind] at hf
        | some sig' =>
          simp only [hfind] at hf
          cases happ : applyCall const sig'.params m.params env b.call with
          | none => simp [happ] at hf
          | some args =>
            simp only [happ, Option.map_some, Option.some.injEq] at hf
            rw [← hf]; exact hsn

end

end Struct.Fluent

import RxModel.WinTime
/-!
# The `create_timer` chain of `window_with_time_`: arithmetic of `next_span` / `next_shift`.
-/
namespace Win

theorem arithFrom_getElem? (s d : Nat) : ∀ (n k : Nat), k < n → (arithFrom s d n)[k]? = some (s + k * d) := by
  intro n
  induction n generalizing s with
  | zero => intro k hk; omega
  | succ n ih =>
    intro k hk
    cases k with
    | zero => simp [arithFrom]
    | succ k =>
      simp only [arithFrom, List.getElem?_cons_succ]
      rw [ih (s + d) k (by omega), Nat.succ_mul]; congr 1; omega

theorem arithFrom_length (s d n : Nat) : (arithFrom s d n).length = n := by
  induction n generalizing s with
  | zero => rfl
  | succ n ih => simp [arithFrom, ih]

namespace Chain

theorem shift_ticks (shift : Nat) : ∀ (n : Nat) (c : Chain),
    ((ticks shift n c).filter (·.isShift)).map (·.at_) =
      arithFrom c.nextShift shift ((ticks shift n c).filter (·.isShift)).length := by
  intro n
  induction n with
  | zero => intro c; rfl
  | succ n ih =>
    intro c
    simp only [ticks]
    by_cases h1 : c.nextShift ≤ c.nextSpan
    · have hfl : (c.next shift).1.isShift = true := by simp [next, h1]
      have hat : (c.next shift).1.at_ = c.nextShift := by
        simp only [next]; split
        · rename_i h2; have : c.nextSpan ≤ c.nextShift := by simpa using h2
          omega
        · rfl
      have hns : (c.next shift).2.nextShift = c.nextShift + shift := by simp [next, h1]
      rw [List.filter_cons_of_pos (by simpa using hfl)]
      simp only [List.map_cons, List.length_cons, arithFrom, hat]
      rw [ih, hns]
    · have hfl : (c.next shift).1.isShift = false := by simp [next, h1]
      have hns : (c.next shift).2.nextShift = c.nextShift := by simp [next, h1]
      rw [List.filter_cons_of_neg (by simp [hfl])]
      rw [ih, hns]

theorem span_ticks (shift : Nat) : ∀ (n : Nat) (c : Chain),
    ((ticks shift n c).filter (·.isSpan)).map (·.at_) =
      arithFrom c.nextSpan shift ((ticks shift n c).filter (·.isSpan)).length := by
  intro n
  induction n with
  | zero => intro c; rfl
  | succ n ih =>
    intro c
    simp only [ticks]
    by_cases h1 : c.nextSpan ≤ c.nextShift
    · have hfl : (c.next shift).1.isSpan = true := by simp [next, h1]
      have hat : (c.next shift).1.at_ = c.nextSpan := by simp [next, h1]
      have hns : (c.next shift).2.nextSpan = c.nextSpan + shift := by simp [next, h1]
      rw [List.filter_cons_of_pos (by simpa using hfl)]
      simp only [List.map_cons, List.length_cons, arithFrom, hat]
      rw [ih, hns]
    · have hfl : (c.next shift).1.isSpan = false := by simp [next, h1]
      have hns : (c.next shift).2.nextSpan = c.nextSpan := by simp [next, h1]
      rw [List.filter_cons_of_neg (by simp [hfl])]
      rw [ih, hns]

/-- every later timer is due no earlier than `min next_span next_shift`. -/
theorem ticks_ge (shift : Nat) : ∀ (n : Nat) (c : Chain) (tk : Tick), tk ∈ ticks shift n c →
    min c.nextShift c.nextSpan ≤ tk.at_ := by
  intro n
  induction n with
  | zero => intro c tk h; simp [ticks] at h
  | succ n ih =>
    intro c tk h
    simp only [ticks, List.mem_cons] at h
    rcases h with h | h
    · subst h; simp only [next]; split <;> omega
    · have := ih _ tk h
      simp only [next] at this
      split at this <;> split at this <;> omega

theorem ticks_sorted (shift : Nat) : ∀ (n : Nat) (c : Chain),
    ((ticks shift n c).map (·.at_)).Pairwise (· ≤ ·) := by
  intro n
  induction n with
  | zero => intro c; simp [ticks]
  | succ n ih =>
    intro c
    simp only [ticks, List.map_cons, List.pairwise_cons]
    refine ⟨?_, ih _⟩
    intro a ha
    obtain ⟨tk, htk, rfl⟩ := List.mem_map.mp ha
    have := ticks_ge shift n _ tk htk
    simp only [next] at this ⊢
    split at this <;> split at this <;> split <;> omega

end Chain
end Win

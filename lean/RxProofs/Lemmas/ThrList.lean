/-!
# Lemmas on lists of per-thread states (used by the atomic-step proofs C30–C32)
-/

namespace Thr

/-- sum of a per-thread measure over all threads. -/
def sumBy {β : Type} (f : β → Nat) : List β → Nat
  | [] => 0
  | x :: xs => f x + sumBy f xs

@[simp] theorem sumBy_nil {β} (f : β → Nat) : sumBy f [] = 0 := rfl
@[simp] theorem sumBy_cons {β} (f : β → Nat) (x : β) (xs : List β) : sumBy f (x :: xs) = f x + sumBy f xs := rfl

theorem sumBy_set {β} (f : β → Nat) (l : List β) (i : Nat) (a b : β) (h : l[i]? = some a) :
    sumBy f (l.set i b) + f a = sumBy f l + f b := by
  induction l generalizing i with
  | nil => simp at h
  | cons x xs ih =>
    cases i with
    | zero => simp at h; subst h; simp; omega
    | succ n =>
      simp at h
      have := ih n h
      simp; omega

theorem sumBy_replicate {β} (f : β → Nat) (n : Nat) (a : β) (h : f a = 0) : sumBy f (List.replicate n a) = 0 := by
  induction n with
  | zero => rfl
  | succ n ih => simp [List.replicate_succ, h, ih]

theorem sumBy_map {β γ} (f : β → Nat) (g : γ → β) (l : List γ) : sumBy f (l.map g) = sumBy (fun x => f (g x)) l := by
  induction l with
  | nil => rfl
  | cons x xs ih => simp [ih]

theorem sumBy_eq_zero_of_forall {β} (f : β → Nat) (l : List β) (h : ∀ x ∈ l, f x = 0) : sumBy f l = 0 := by
  induction l with
  | nil => rfl
  | cons x xs ih => simp [h x (by simp), ih (fun y hy => h y (by simp [hy]))]

theorem sumBy_zero_mem {β} (f : β → Nat) (l : List β) (h : sumBy f l = 0) : ∀ x ∈ l, f x = 0 := by
  induction l with
  | nil => simp
  | cons x xs ih =>
    simp at h
    intro y hy
    simp at hy
    rcases hy with rfl | hy
    · exact h.1
    · exact ih h.2 y hy

theorem sumBy_le_mem {β} (f : β → Nat) (l : List β) (i : Nat) (a : β) (h : l[i]? = some a) : f a ≤ sumBy f l := by
  have := sumBy_set f l i a a h
  induction l generalizing i with
  | nil => simp at h
  | cons x xs ih =>
    cases i with
    | zero => simp at h; subst h; simp
    | succ n =>
      simp at h
      have := ih n h (sumBy_set f xs n a a h)
      simp; omega

/-- If the threads' "activity" sums to at most one and thread `i` is active, the items held by all
threads are exactly those held by thread `i` — before and after `i` changes its state. -/
theorem flatMap_unique {β γ} (act : β → Nat) (items : β → List γ) (hz : ∀ b, act b = 0 → items b = [])
    (l : List β) (i : Nat) (a b : β) (h : l[i]? = some a) (ha : 1 ≤ act a) (hs : sumBy act l ≤ 1) :
    l.flatMap items = items a ∧ (l.set i b).flatMap items = items b := by
  induction l generalizing i with
  | nil => simp at h
  | cons x xs ih =>
    cases i with
    | zero =>
      simp at h; subst h
      simp at hs
      have h0 : sumBy act xs = 0 := by omega
      have hall := sumBy_zero_mem act xs h0
      have : xs.flatMap items = [] := by
        simp only [List.flatMap_eq_nil_iff]
        intro y hy; exact hz y (hall y hy)
      simp [this]
    | succ n =>
      simp at h
      simp at hs
      have hle := sumBy_le_mem act xs n a h
      have hx : act x = 0 := by omega
      have := ih n h (by omega)
      simp [hz x hx, this.1, this.2]

end Thr

namespace Thr
theorem flatMap_set_nil {β γ} (items : β → List γ) (l : List β) (i : Nat) (a b : β) (h : l[i]? = some a)
    (ha : items a = []) (hb : items b = []) : (l.set i b).flatMap items = l.flatMap items := by
  induction l generalizing i with
  | nil => simp at h
  | cons x xs ih =>
    cases i with
    | zero => simp at h; subst h; simp [ha, hb]
    | succ n => simp at h; simp [ih n h]
end Thr

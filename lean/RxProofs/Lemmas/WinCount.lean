import RxProofs.Lemmas.Win
/-!
# Lemmas for `window_with_count_`: the invariant relating `n`, `q` and the window contents to the elements seen so far.
-/
namespace Win
variable {α : Type}

/-! arithmetic helpers -/
theorem mul_unique {s m b : Nat} (hs : 0 < s) (hm : m % s = 0) (hle : m ≤ b * s) (hlo : b = 0 ∨ (b - 1) * s < m) :
    m = b * s := by
  have hd : m = m / s * s := by
    have := Nat.div_add_mod m s; rw [hm, Nat.add_zero, Nat.mul_comm] at this; exact this.symm
  rcases hlo with rfl | hlo
  · simp at hle; simp [hle]
  · rw [hd] at hle hlo
    have h1 : m / s ≤ b := Nat.le_of_mul_le_mul_right hle hs
    have h2 : b - 1 < m / s := Nat.lt_of_mul_lt_mul_right hlo
    have : m / s = b := by omega
    rw [hd, this]

theorem drop_take_snoc_open {pre : List α} {x : α} {o count : Nat} (h1 : o ≤ pre.length) (h2 : pre.length < o + count) :
    ((pre ++ [x]).drop o).take count = (pre.drop o).take count ++ [x] := by
  rw [List.drop_append_of_le_length h1]
  have hl : (pre.drop o).length < count := by simp; omega
  rw [List.take_of_length_le (by simp; omega), List.take_of_length_le (Nat.le_of_lt hl)]

theorem drop_take_snoc_closed {pre : List α} {x : α} {o count : Nat} (h : o + count ≤ pre.length) :
    ((pre ++ [x]).drop o).take count = (pre.drop o).take count := by
  rw [List.drop_append_of_le_length (by omega)]
  rw [List.take_append_of_le_length (by simp; omega)]

namespace Cnt

@[simp] theorem createWindow_n (s : Cnt α) : s.createWindow.n = s.n := rfl
@[simp] theorem createWindow_q (s : Cnt α) : s.createWindow.q = s.q ++ [s.b.wins.length] := rfl
@[simp] theorem createWindow_len (s : Cnt α) : s.createWindow.b.wins.length = s.b.wins.length + 1 := by
  simp [createWindow]
@[simp] theorem createWindow_pushedOf (s : Cnt α) (k) : s.createWindow.b.pushedOf k = s.b.pushedOf k := by
  simp [createWindow, Base.pushedOf_newWin]
@[simp] theorem createWindow_endedOf (s : Cnt α) (k) : s.createWindow.b.endedOf k = s.b.endedOf k := by
  simp [createWindow, Base.endedOf_newWin]

end Cnt
end Win
namespace Win
variable {α : Type}
namespace Cnt

/-- the state of `window_with_count_` after the elements `pre`: `a` windows created, `b` of them popped. -/
structure CInv (count skip : Nat) (pre : List α) (s : Cnt α) (a b : Nat) : Prop where
  n_eq : s.n = pre.length
  len : s.b.wins.length = a
  q_eq : s.q = List.range' b (a - b)
  ba : b ≤ a
  a_pos : 1 ≤ a
  a_lo : (a - 1) * skip ≤ pre.length
  a_hi : pre.length < a * skip
  b_lo : b = 0 ∨ (b - 1) * skip + count ≤ pre.length
  b_hi : pre.length < b * skip + count
  pushed : ∀ k, k < a → s.b.pushedOf k = (pre.drop (k * skip)).take count
  ended : ∀ k, k < a → s.b.endedOf k = if k < b then some none else none

theorem cinv_init (count skip t0 : Nat) (hc : 0 < count) (hs : 0 < skip) :
    CInv count skip ([] : List α) (Cnt.init t0) 1 0 := by
  refine ⟨rfl, ?_, rfl, by omega, by omega, by simp, by simpa using hs, Or.inl rfl, by simpa using hc, ?_, ?_⟩
  · simp [init]
  · intro k hk
    have : k = 0 := by omega
    subst this; simp only [init, Base.pushedOf_subscribe, createWindow_pushedOf]; simp [Base.pushedOf]
  · intro k hk
    have : k = 0 := by omega
    subst this; simp only [init, Base.endedOf_subscribe, createWindow_endedOf]; simp [Base.endedOf]

end Cnt
end Win
namespace Win
variable {α : Type}
namespace Cnt

/-- between the pop phase and the create phase of `on_next` (n already incremented). -/
structure MInv (count skip : Nat) (pre : List α) (s : Cnt α) (a b : Nat) : Prop where
  n_eq : s.n = pre.length
  len : s.b.wins.length = a
  q_eq : s.q = List.range' b (a - b)
  ba : b ≤ a
  a_pos : 1 ≤ a
  a_lo : (a - 1) * skip < pre.length
  a_hi : pre.length ≤ a * skip
  b_lo : b = 0 ∨ (b - 1) * skip + count ≤ pre.length
  b_hi : pre.length < b * skip + count
  pushed : ∀ k, k < a → s.b.pushedOf k = (pre.drop (k * skip)).take count
  ended : ∀ k, k < a → s.b.endedOf k = if k < b then some none else none

def fin (skip : Nat) (s : Cnt α) : Cnt α := if s.n % skip = 0 then createWindow s else s

theorem mid_to_cinv {count skip : Nat} (hs : 0 < skip) {pre : List α} {s : Cnt α} {a b : Nat}
    (h : MInv count skip pre s a b) : ∃ a', CInv count skip pre (fin skip s) a' b := by
  unfold fin
  by_cases hm : s.n % skip = 0
  · rw [if_pos hm]
    have hn : pre.length = a * skip := by
      rw [h.n_eq] at hm
      exact mul_unique hs hm h.a_hi (Or.inr h.a_lo)
    have hsucc : (a + 1) * skip = a * skip + skip := Nat.succ_mul a skip
    refine ⟨a + 1, ?_, ?_, ?_, ?_, ?_, ?_, ?_, h.b_lo, h.b_hi, ?_, ?_⟩
    · simpa using h.n_eq
    · simp [h.len]
    · rw [createWindow_q, h.q_eq, h.len]
      have : a + 1 - b = (a - b) + 1 := by have := h.ba; omega
      rw [this, List.range'_1_concat]; congr 2; have := h.ba; omega
    · have := h.ba; omega
    · omega
    · simp [hn]
    · omega
    · intro k hk
      rw [createWindow_pushedOf]
      by_cases hka : k < a
      · exact h.pushed k hka
      · have : k = a := by omega
        subst this
        rw [Base.pushedOf_nil_of_ge (by rw [h.len]; exact Nat.le_refl _), ← hn]; simp
    · intro k hk
      rw [createWindow_endedOf]
      by_cases hka : k < a
      · exact h.ended k hka
      · have : k = a := by omega
        subst this
        rw [Base.endedOf_none_of_ge (by rw [h.len]; exact Nat.le_refl _)]
        have := h.ba
        simp; omega
  · rw [if_neg hm]
    have hne : pre.length ≠ a * skip := by
      intro e; apply hm; rw [h.n_eq, e]; exact Nat.mul_mod_left a skip
    have := h.a_hi; have := h.a_lo
    exact ⟨a, h.n_eq, h.len, h.q_eq, h.ba, h.a_pos, by omega, by omega, h.b_lo, h.b_hi, h.pushed, h.ended⟩

end Cnt
end Win
namespace Win
variable {α : Type}
namespace Cnt

theorem onNext_eq (count skip : Nat) (s : Cnt α) (x : α) :
    onNext count skip s x =
      if s.n + 1 ≥ count ∧ (s.n + 1 - count) % skip = 0 then
        match s.q with
        | [] => { s with b := (s.q.foldl (fun b id => b.winNext id x) s.b).emit (.escaped "IndexError") }
        | id :: q' => fin skip { s with b := (s.q.foldl (fun b id => b.winNext id x) s.b).winEnd id none, q := q', n := s.n + 1 }
      else fin skip { s with b := s.q.foldl (fun b id => b.winNext id x) s.b, n := s.n + 1 } := rfl

theorem cinv_step {count skip : Nat} (hc : 0 < count) (hs : 0 < skip) {pre : List α} {s : Cnt α} {a b : Nat}
    (h : CInv count skip pre s a b) (x : α) :
    ∃ a' b', CInv count skip (pre ++ [x]) (onNext count skip s x) a' b' := by
  -- facts about the push phase
  have hnd : s.q.Nodup := by rw [h.q_eq]; exact List.nodup_range'
  have hmem : ∀ k, k ∈ s.q ↔ b ≤ k ∧ k < a := by
    intro k; rw [h.q_eq, List.mem_range'_1]; have := h.ba; omega
  have hmono : ∀ k, k ≤ a - 1 → k * skip ≤ (a - 1) * skip := fun k hk => Nat.mul_le_mul_right skip hk
  have push1 : ∀ k, k < a → (s.q.foldl (fun b id => b.winNext id x) s.b).pushedOf k
      = ((pre ++ [x]).drop (k * skip)).take count := by
    intro k hk
    rw [Base.pushedOf_foldl_winNext _ hnd, h.len, h.ended k hk, h.pushed k hk]
    by_cases hkb : k < b
    · have hb1 : (b - 1) * skip + count ≤ pre.length := by
        rcases h.b_lo with h0 | h1
        · omega
        · exact h1
      have : k * skip ≤ (b - 1) * skip := Nat.mul_le_mul_right skip (by omega)
      rw [if_neg (by rintro ⟨_, _, h3⟩; simp [hkb] at h3), drop_take_snoc_closed (by omega)]
    · have h1 : k * skip ≤ (a - 1) * skip := hmono k (by omega)
      have h2 : b * skip ≤ k * skip := Nat.mul_le_mul_right skip (by omega)
      have := h.a_lo; have := h.b_hi
      rw [if_pos ⟨(hmem k).2 ⟨by omega, hk⟩, hk, by simp [hkb]⟩, drop_take_snoc_open (by omega) (by omega)]
  rw [onNext_eq]
  by_cases hpop : s.n + 1 ≥ count ∧ (s.n + 1 - count) % skip = 0
  · rw [if_pos hpop]
    rw [h.n_eq] at hpop
    have hb : pre.length + 1 - count = b * skip := by
      apply mul_unique hs hpop.2
      · have := h.b_hi; omega
      · rcases h.b_lo with h0 | h1
        · exact Or.inl h0
        · right; omega
    have hlt : b < a := by
      have h1 := h.a_hi
      have : b * skip < a * skip := by omega
      exact Nat.lt_of_mul_lt_mul_right this
    have hq : s.q = b :: List.range' (b + 1) (a - (b + 1)) := by
      rw [h.q_eq]
      have : a - b = (a - (b + 1)) + 1 := by omega
      rw [this, List.range'_succ]
    rw [hq]; simp only []
    have hsucc : (b + 1) * skip = b * skip + skip := Nat.succ_mul b skip
    obtain ⟨a', h'⟩ := mid_to_cinv (count := count) hs (pre := pre ++ [x]) (a := a) (b := b + 1)
      (s := { s with b := ((b :: List.range' (b + 1) (a - (b + 1))).foldl (fun b id => b.winNext id x) s.b).winEnd b none,
                     q := List.range' (b + 1) (a - (b + 1)), n := s.n + 1 })
      (by
        refine ⟨?_, ?_, rfl, by omega, h.a_pos, ?_, ?_, ?_, ?_, ?_, ?_⟩
        · simp [h.n_eq]
        · simp [h.len]
        · have := h.a_lo; simp; omega
        · have := h.a_hi; simp; omega
        · right; simp; omega
        · simp; omega
        · intro k hk; rw [Base.pushedOf_winEnd, ← hq]; exact push1 k hk
        · intro k hk
          rw [Base.endedOf_winEnd, Base.endedOf_foldl_winNext, Base.length_foldl_winNext, h.len, h.ended k hk]
          by_cases hkb : k = b
          · subst hkb; simp [hk]
          · by_cases hkb' : k < b
            · have : k < b + 1 := by omega
              simp [hkb', this]
            · have : ¬ k < b + 1 := by omega
              simp [hkb', this]; intro e; omega)
    exact ⟨a', b + 1, h'⟩
  · rw [if_neg hpop]
    rw [h.n_eq] at hpop
    have hne : pre.length + 1 ≠ b * skip + count := by
      intro e; apply hpop
      refine ⟨by omega, ?_⟩
      have : pre.length + 1 - count = b * skip := by omega
      rw [this]; exact Nat.mul_mod_left b skip
    obtain ⟨a', h'⟩ := mid_to_cinv (count := count) hs (pre := pre ++ [x]) (a := a) (b := b)
      (s := { s with b := s.q.foldl (fun b id => b.winNext id x) s.b, n := s.n + 1 })
      (by
        refine ⟨?_, ?_, h.q_eq, h.ba, h.a_pos, ?_, ?_, ?_, ?_, push1, ?_⟩
        · simp [h.n_eq]
        · simp [h.len]
        · have := h.a_lo; simp; omega
        · have := h.a_hi; simp; omega
        · rcases h.b_lo with h0 | h1
          · exact Or.inl h0
          · right; simp; omega
        · have := h.b_hi; simp; omega
        · intro k hk; rw [Base.endedOf_foldl_winNext]; exact h.ended k hk)
    exact ⟨a', b, h'⟩

end Cnt
end Win
namespace Win
variable {α : Type}

/-- the part of the plumbing state that decides whether the source is still listened to. -/
def Base.ctl (b : Base α) : Bool × Bool × List Nat := (b.primary, b.rcDisposed, b.live)

namespace Base
@[simp] theorem ctl_emit (b : Base α) (o) : (b.emit o).ctl = b.ctl := rfl
@[simp] theorem ctl_now (b : Base α) (t) : ({ b with now := t } : Base α).ctl = b.ctl := rfl
@[simp] theorem ctl_newWin (b : Base α) : b.newWin.1.ctl = b.ctl := rfl
@[simp] theorem ctl_outerNext (b : Base α) (i) : (b.outerNext i).ctl = b.ctl := by
  unfold outerNext; split; rfl
  simp only [emit]; by_cases hr : b.rcDisposed = true <;> simp [hr, ctl]
@[simp] theorem ctl_winNext (b : Base α) (i x) : (b.winNext i x).ctl = b.ctl := by
  unfold winNext; split; rfl; split; rfl; simp only []; split <;> rfl
theorem ctl_rcRelease (b : Base α) (h : b.primary = false) : b.rcRelease.ctl = b.ctl := by
  unfold rcRelease; split; rfl; simp [h, ctl]
theorem ctl_winEnd (b : Base α) (i e) (h : b.primary = false) : (b.winEnd i e).ctl = b.ctl := by
  unfold winEnd; split; rfl; split; rfl; simp only []; split
  · rw [ctl_rcRelease _ (by simpa [emit] using h)]; rfl
  · rfl
@[simp] theorem ctl_foldl_winNext (q : List Nat) (b : Base α) (x : α) :
    (q.foldl (fun b id => b.winNext id x) b).ctl = b.ctl := by
  induction q generalizing b with
  | nil => rfl
  | cons i q ih => simp [List.foldl_cons, ih]
end Base

namespace Cnt

theorem ctl_createWindow (s : Cnt α) : s.createWindow.b.ctl = s.b.ctl := by simp [createWindow]

theorem ctl_onNext (count skip : Nat) (s : Cnt α) (x : α) (h : s.b.primary = false) :
    (onNext count skip s x).b.ctl = s.b.ctl := by
  have hp : (s.q.foldl (fun b id => b.winNext id x) s.b).primary = false := by
    have := Base.ctl_foldl_winNext s.q s.b x
    simp only [Base.ctl, Prod.mk.injEq] at this; rw [this.1]; exact h
  rw [onNext_eq]; unfold fin
  split
  · split
    · simp
    · simp only []; split
      · rw [ctl_createWindow]; simp [Base.ctl_winEnd _ _ _ hp]
      · simp [Base.ctl_winEnd _ _ _ hp]
  · simp only []; split
    · rw [ctl_createWindow]; simp
    · simp

/-- the elements of a timed list of source `on_next` events. -/
def nexts (tx : List (Nat × α)) : List (Nat × Ev α) := tx.map fun (t, x) => (t, Ev.src 0 (.next x))

theorem cinv_run {count skip : Nat} (hc : 0 < count) (hs : 0 < skip) (tx : List (Nat × α)) :
    ∀ {pre : List α} {s : Cnt α} {a b : Nat}, CInv count skip pre s a b →
      s.b.ctl = (false, false, [0]) →
      ∃ a' b', CInv count skip (pre ++ tx.map (·.2)) (run count skip s (nexts tx)) a' b' := by
  induction tx with
  | nil => intro pre s a b h _; exact ⟨a, b, by simpa [nexts, run] using h⟩
  | cons p tx ih =>
    intro pre s a b h hctl
    obtain ⟨t, x⟩ := p
    have hnow : CInv count skip pre ({ s with b := { s.b with now := t } } : Cnt α) a b :=
      ⟨h.n_eq, h.len, h.q_eq, h.ba, h.a_pos, h.a_lo, h.a_hi, h.b_lo, h.b_hi, h.pushed, h.ended⟩
    have hctl' : ({ s with b := { s.b with now := t } } : Cnt α).b.ctl = (false, false, [0]) := hctl
    have hlive : ({ s with b := { s.b with now := t } } : Cnt α).b.live.contains 0 = true := by
      simp only [Base.ctl, Prod.mk.injEq] at hctl; simp [hctl.2.2]
    have hprim : ({ s with b := { s.b with now := t } } : Cnt α).b.primary = false := by
      simp only [Base.ctl, Prod.mk.injEq] at hctl; exact hctl.1
    obtain ⟨a1, b1, h1⟩ := cinv_step hc hs hnow x
    have hstep : step count skip ({ s with b := { s.b with now := t } } : Cnt α) (.src 0 (.next x))
        = onNext count skip ({ s with b := { s.b with now := t } } : Cnt α) x := by
      simp only [step, hlive, if_true]
    have := ih h1 (by rw [ctl_onNext _ _ _ _ hprim]; exact hctl')
    obtain ⟨a2, b2, h2⟩ := this
    refine ⟨a2, b2, ?_⟩
    simp only [nexts, List.map_cons, run] at h2 ⊢
    rw [hstep]
    simpa [List.append_assoc] using h2

theorem cinv_init_ctl (t0 : Nat) : (Cnt.init (α := α) t0).b.ctl = (false, false, [0]) := by
  simp [init, createWindow, Base.ctl, Base.subscribe, Base.emit, Base.outerNext, Base.newWin]

end Cnt
end Win

import RxModel.WinGrp
/-!
# Lemmas for C19: the invariant-relevant *core* of the `group_by_until` machine

`core s` forgets the effect log, the subscribers' records, the duration-subscription flags and the
writer logs.  The low-level plumbing (`RefCountDisposable`, `Subject` terminals, `termAll`,
`errorAll`) acts on the core through the `a…` functions below (simulation lemmas `core_…`), and the
well-formedness invariant `WFc` is proved preserved on that small structure.
-/
namespace WinGrp
variable {α κ β : Type}

/-! ### projections of the basic state transformers -/
@[simp] theorem emit_groups (s : St κ β) (e) : (emit s e).groups = s.groups := rfl
@[simp] theorem emit_writers (s : St κ β) (e) : (emit s e).writers = s.writers := rfl
@[simp] theorem emit_srcStopped (s : St κ β) (e) : (emit s e).srcStopped = s.srcStopped := rfl
@[simp] theorem emit_outStopped (s : St κ β) (e) : (emit s e).outStopped = s.outStopped := rfl
@[simp] theorem emit_primary (s : St κ β) (e) : (emit s e).primary = s.primary := rfl
@[simp] theorem emit_count (s : St κ β) (e) : (emit s e).count = s.count := rfl
@[simp] theorem emit_rcdDisposed (s : St κ β) (e) : (emit s e).rcdDisposed = s.rcdDisposed := rfl
@[simp] theorem emit_srcOpen (s : St κ β) (e) : (emit s e).srcOpen = s.srcOpen := rfl
@[simp] theorem emit_out (s : St κ β) (e) : (emit s e).out = s.out ++ [e] := rfl

@[simp] theorem modGrp_groups (s : St κ β) (g f) : (modGrp s g f).groups = s.groups.modify g f := rfl
@[simp] theorem modGrp_writers (s : St κ β) (g f) : (modGrp s g f).writers = s.writers := rfl
@[simp] theorem modGrp_srcStopped (s : St κ β) (g f) : (modGrp s g f).srcStopped = s.srcStopped := rfl
@[simp] theorem modGrp_outStopped (s : St κ β) (g f) : (modGrp s g f).outStopped = s.outStopped := rfl
@[simp] theorem modGrp_primary (s : St κ β) (g f) : (modGrp s g f).primary = s.primary := rfl
@[simp] theorem modGrp_count (s : St κ β) (g f) : (modGrp s g f).count = s.count := rfl
@[simp] theorem modGrp_rcdDisposed (s : St κ β) (g f) : (modGrp s g f).rcdDisposed = s.rcdDisposed := rfl
@[simp] theorem modGrp_srcOpen (s : St κ β) (g f) : (modGrp s g f).srcOpen = s.srcOpen := rfl
@[simp] theorem modGrp_out (s : St κ β) (g f) : (modGrp s g f).out = s.out := rfl

/-- the part of a group the invariants talk about -/
structure CG (κ : Type) where
  key : κ
  stopped : Bool
  expired : Bool
  announced : Bool
  sub : SubSt
  holdsRef : Bool

def cg (r : Grp κ β) : CG κ := ⟨r.key, r.stopped, r.expired, r.announced, r.sub, r.holdsRef⟩

/-- the part of the state the invariants talk about -/
structure Core (κ : Type) where
  gs : List (CG κ)
  writers : List (κ × Nat)
  srcStopped : Bool
  outStopped : Bool
  primary : Bool
  count : Nat
  rcdDisposed : Bool

def core (s : St κ β) : Core κ :=
  ⟨s.groups.map cg, s.writers, s.srcStopped, s.outStopped, s.primary, s.count, s.rcdDisposed⟩

@[simp] theorem core_gs (s : St κ β) : (core s).gs = s.groups.map cg := rfl
@[simp] theorem core_writers (s : St κ β) : (core s).writers = s.writers := rfl
@[simp] theorem core_srcStopped (s : St κ β) : (core s).srcStopped = s.srcStopped := rfl
@[simp] theorem core_outStopped (s : St κ β) : (core s).outStopped = s.outStopped := rfl
@[simp] theorem core_primary (s : St κ β) : (core s).primary = s.primary := rfl
@[simp] theorem core_count (s : St κ β) : (core s).count = s.count := rfl
@[simp] theorem core_rcdDisposed (s : St κ β) : (core s).rcdDisposed = s.rcdDisposed := rfl

theorem map_modify_comm {A B} (f : A → B) (h : A → A) (h' : B → B) (l : List A) (g : Nat)
    (hh : ∀ a, f (h a) = h' (f a)) : (l.modify g h).map f = (l.map f).modify g h' := by
  induction l generalizing g with
  | nil => simp
  | cons a l ih => cases g <;> simp_all [List.modify]

theorem modify_id' {A} (h : A → A) (l : List A) (g : Nat) (hh : ∀ a, h a = a) : l.modify g h = l := by
  induction l generalizing g with
  | nil => simp
  | cons a l ih => cases g <;> simp_all [List.modify]

theorem map_modify_same {A B} (f : A → B) (h : A → A) (l : List A) (g : Nat) (hh : ∀ a, f (h a) = f a) :
    (l.modify g h).map f = l.map f := by
  rw [map_modify_comm f h id l g (by simpa using hh)]
  exact modify_id' _ _ _ (fun _ => rfl)

def aMod (c : Core κ) (g : Nat) (f : CG κ → CG κ) : Core κ := { c with gs := c.gs.modify g f }

theorem core_modGrp (s : St κ β) (g : Nat) (f : Grp κ β → Grp κ β) (f' : CG κ → CG κ)
    (h : ∀ r, cg (f r) = f' (cg r)) : core (modGrp s g f) = aMod (core s) g f' := by
  simp [core, aMod, map_modify_comm cg f f' _ _ h]

theorem core_modGrp_same (s : St κ β) (g : Nat) (f : Grp κ β → Grp κ β)
    (h : ∀ r, cg (f r) = cg r) : core (modGrp s g f) = core s := by
  simp [core, map_modify_same cg f _ _ h]

@[simp] theorem core_emit (s : St κ β) (e) : core (emit s e) = core s := rfl

theorem core_closeDur (s : St κ β) (g : Nat) : core (closeDur s g) = core s := by
  unfold closeDur
  split
  · split
    · rw [core_emit, core_modGrp_same]; intro r; rfl
    · rfl
  · rfl

theorem core_closeSrc (s : St κ β) : core (closeSrc s) = core s := by
  unfold closeSrc; split <;> simp [core]

theorem core_foldl_closeDur (s : St κ β) (l : List Nat) : core (l.foldl closeDur s) = core s := by
  induction l generalizing s with
  | nil => rfl
  | cons a l ih => simp [List.foldl, ih, core_closeDur]

def aGd (c : Core κ) : Core κ := { c with srcStopped := true }

theorem core_gdDispose (s : St κ β) : core (gdDispose s) = aGd (core s) := by
  unfold gdDispose
  simp only [core_foldl_closeDur, core_closeSrc]
  rfl

def aDispose (c : Core κ) : Core κ :=
  if c.rcdDisposed then c
  else if !c.primary then
    if c.count == 0 then aGd { c with primary := true, rcdDisposed := true } else { c with primary := true }
  else c

theorem core_rcdDispose (s : St κ β) : core (rcdDispose s) = aDispose (core s) := by
  unfold rcdDispose aDispose
  by_cases h1 : s.rcdDisposed <;> by_cases h2 : s.primary <;> by_cases h3 : s.count = 0 <;>
    simp [h1, h2, h3, core_gdDispose] <;> simp [core, aGd]

def aRelease (c : Core κ) : Core κ :=
  if c.rcdDisposed then c
  else if c.count - 1 == 0 && c.primary then aGd { c with count := c.count - 1, rcdDisposed := true }
  else { c with count := c.count - 1 }

theorem core_rcdRelease (s : St κ β) : core (rcdRelease s) = aRelease (core s) := by
  unfold rcdRelease aRelease
  by_cases h1 : s.rcdDisposed <;> by_cases h2 : s.primary <;> by_cases h3 : s.count - 1 = 0 <;>
    simp [h1, h2, h3, core_gdDispose] <;> simp [core, aGd]

def aSubEnd (c : Core κ) (g : Nat) : Core κ :=
  match c.gs[g]? with
  | some r =>
    let c := aMod c g fun r => { r with sub := .ended, holdsRef := false }
    if r.holdsRef then aRelease c else c
  | none => c

theorem core_getElem? (s : St κ β) (g : Nat) : (core s).gs[g]? = (s.groups[g]?).map cg := by simp

theorem core_subEnd (s : St κ β) (g : Nat) : core (subEnd s g) = aSubEnd (core s) g := by
  unfold subEnd aSubEnd
  rw [core_getElem?]
  cases h : s.groups[g]? with
  | none => rfl
  | some r =>
    simp only [Option.map_some]
    have hm : core (modGrp s g fun r => { r with sub := .ended, holdsRef := false }) =
        aMod (core s) g fun r => { r with sub := .ended, holdsRef := false } :=
      core_modGrp _ _ _ _ (fun _ => rfl)
    by_cases hr : r.holdsRef <;> simp [hr, cg, core_rcdRelease, hm]

def aWTerm (c : Core κ) (g : Nat) : Core κ :=
  match c.gs[g]? with
  | some r =>
    if r.stopped then c
    else
      let c := aMod c g fun r => { r with stopped := true }
      if r.sub = .active then aSubEnd c g else c
  | none => c

theorem core_writerTerm (s : St κ β) (g : Nat) (n : Notif β) : core (writerTerm s g n) = aWTerm (core s) g := by
  unfold writerTerm aWTerm
  rw [core_getElem?]
  cases h : s.groups[g]? with
  | none => rfl
  | some r =>
    simp only [Option.map_some]
    by_cases hs : r.stopped
    · simp [hs, cg]
    · have hm : core (modGrp s g fun r => { r with stopped := true, exc := excOf n, wlog := r.wlog ++ [n] }) =
        aMod (core s) g fun r => { r with stopped := true } := core_modGrp _ _ _ _ (fun _ => rfl)
      by_cases ha : r.sub = .active
      · simp only [hs, cg, ha, Bool.false_eq_true, if_false, if_true, core_subEnd, core_emit]
        rw [core_modGrp_same, core_emit, hm]; intro _; rfl
      · simp [hs, cg, ha, hm]

theorem core_writerNext (s : St κ β) (g : Nat) (v : β) : core (writerNext s g v) = core s := by
  unfold writerNext
  split
  · split
    · rfl
    · split
      · rw [core_emit, core_modGrp_same, core_emit, core_modGrp_same] <;> (intro _; rfl)
      · rw [core_emit, core_modGrp_same]; intro _; rfl
  · rfl

def aTermAll (c : Core κ) : Core κ := (c.writers.map (·.2)).foldl aWTerm c

theorem core_foldl_writerTerm (s : St κ β) (l : List Nat) (n : Notif β) :
    core (l.foldl (fun s g => writerTerm s g n) s) = l.foldl aWTerm (core s) := by
  induction l generalizing s with
  | nil => rfl
  | cons a l ih => simp [List.foldl, ih, core_writerTerm]

theorem core_termAll (s : St κ β) (n : Notif β) : core (termAll s n) = aTermAll (core s) := by
  unfold termAll aTermAll; rw [core_foldl_writerTerm]; rfl

def aOuterTerm (c : Core κ) : Core κ :=
  if c.outStopped then c else aDispose { c with outStopped := true }

theorem core_outerTerm (s : St κ β) (n) : core (outerTerm s n) = aOuterTerm (core s) := by
  unfold outerTerm aOuterTerm
  by_cases h : s.outStopped <;> simp [h, core_rcdDispose] <;> rfl

def aErrorAll (c : Core κ) : Core κ := aOuterTerm (aTermAll c)

theorem core_errorAll (s : St κ β) (e) : core (errorAll s e) = aErrorAll (core s) := by
  unfold errorAll aErrorAll; rw [core_outerTerm, core_termAll]; rfl


/-! ### the well-formedness invariant on the core -/

/-- the `writers` map as determined by the groups: the non-expired groups in creation order -/
def liveW : List (CG κ) → Nat → List (κ × Nat)
  | [], _ => []
  | r :: rs, i => if r.expired then liveW rs (i + 1) else (r.key, i) :: liveW rs (i + 1)

structure WFc (keyEq : κ → κ → Bool) (c : Core κ) : Prop where
  shape : c.writers = liveW c.gs 0
  uniq : c.writers.Pairwise (fun a b => keyEq a.1 b.1 = false)
  act_open : ∀ r ∈ c.gs, r.sub = .active → r.stopped = false
  ref_act : ∀ r ∈ c.gs, r.holdsRef = true → r.sub = .active
  cnt : c.rcdDisposed = false → c.count = c.gs.countP (·.holdsRef)
  src_live : c.srcStopped = false → c.rcdDisposed = false
  out_prim : c.outStopped = true → c.primary = true
  disp_prim : c.rcdDisposed = true → c.primary = true
  prim_cnt : c.primary = true → c.rcdDisposed = false → c.count ≠ 0
  nr : c.rcdDisposed = true → ∀ r ∈ c.gs, r.holdsRef = false

theorem mem_modify {A} {l : List A} {g : Nat} {f : A → A} {x : A} (h : x ∈ l.modify g f) :
    x ∈ l ∨ ∃ a, l[g]? = some a ∧ x = f a := by
  induction l generalizing g with
  | nil => simp at h
  | cons a l ih =>
    cases g with
    | zero =>
      simp only [List.modify_zero_cons, List.mem_cons] at h
      rcases h with h | h
      · right; exact ⟨a, by simp, h⟩
      · left; simp [h]
    | succ g =>
      simp only [List.modify_succ_cons, List.mem_cons] at h
      rcases h with h | h
      · left; simp [h]
      · rcases ih h with h | ⟨b, hb, hx⟩
        · left; simp [h]
        · right; exact ⟨b, by simpa using hb, hx⟩

theorem liveW_modify (l : List (CG κ)) (g i : Nat) (f : CG κ → CG κ)
    (hk : ∀ r, (f r).key = r.key) (he : ∀ r, (f r).expired = r.expired) :
    liveW (l.modify g f) i = liveW l i := by
  induction l generalizing g i with
  | nil => simp
  | cons a l ih =>
    cases g with
    | zero => simp [liveW, hk, he]
    | succ g => simp [liveW, ih]

theorem countP_modify_at (l : List (CG κ)) (g : Nat) (f : CG κ → CG κ) (r : CG κ) (hr : l[g]? = some r) :
    (l.modify g f).countP (·.holdsRef) + r.holdsRef.toNat = l.countP (·.holdsRef) + (f r).holdsRef.toNat := by
  induction l generalizing g with
  | nil => simp at hr
  | cons a l ih =>
    cases g with
    | zero =>
      simp only [List.getElem?_cons_zero, Option.some.injEq] at hr; subst hr
      simp only [List.modify_zero_cons, List.countP_cons]
      cases a.holdsRef <;> cases (f a).holdsRef <;> simp
    | succ g =>
      simp only [List.getElem?_cons_succ] at hr
      have := ih g hr
      simp only [List.modify_succ_cons, List.countP_cons]; omega

theorem mem_of_getElem? {A} {l : List A} {g : Nat} {a : A} (h : l[g]? = some a) : a ∈ l :=
  List.mem_of_getElem? h

variable {keyEq : κ → κ → Bool}

theorem wf_aGd {c : Core κ} (h : WFc keyEq c) : WFc keyEq (aGd c) :=
  ⟨h.shape, h.uniq, h.act_open, h.ref_act, h.cnt, by simp [aGd], h.out_prim, h.disp_prim, h.prim_cnt, h.nr⟩

/-- `RefCountDisposable.dispose()` right after the outer AutoDetachObserver stopped -/
theorem wf_aDispose {c : Core κ} (h : WFc keyEq c) : WFc keyEq (aDispose { c with outStopped := true }) ∧
    (aDispose { c with outStopped := true }).primary = true := by
  obtain ⟨hs, hu, ha, hr, hc, hl, ho, hd, hp, hn⟩ := h
  have hz : c.rcdDisposed = false → c.count = 0 → ∀ r ∈ c.gs, r.holdsRef = false := by
    intro h1 h3 r hr'
    have := hc h1; rw [h3] at this
    have := List.countP_eq_zero.mp this.symm r hr'
    simpa using this
  unfold aDispose aGd
  by_cases h1 : c.rcdDisposed <;> by_cases h2 : c.primary <;> by_cases h3 : c.count = 0 <;>
    simp only [h1, h2, h3, if_true, if_false, Bool.false_eq_true, Bool.not_true, Bool.not_false, beq_self_eq_true, beq_iff_eq] <;>
    refine ⟨⟨?_, ?_, ?_, ?_, ?_, ?_, ?_, ?_, ?_, ?_⟩, ?_⟩ <;>
    first
    | (simp_all; done)
    | (intro hd' r hr'
       first
       | exact hn (by simpa using h1) r hr'
       | exact hz (by simpa using h1) (by simpa using h3) r hr')

theorem aSubEnd_gs (c : Core κ) (g : Nat) :
    (aSubEnd c g).gs = c.gs.modify g fun r => { r with sub := .ended, holdsRef := false } := by
  unfold aSubEnd
  cases h : c.gs[g]? with
  | none =>
    simp only
    rw [List.modify_eq_self]; exact Nat.le_of_not_lt (fun hl => by simp [List.getElem?_eq_getElem hl] at h)
  | some r =>
    simp only
    by_cases hr : r.holdsRef <;> simp only [hr, if_true, Bool.false_eq_true, if_false, aMod]
    unfold aRelease aGd
    split
    · rfl
    · split <;> rfl

theorem wf_aSubEnd {c : Core κ} (h : WFc keyEq c) (g : Nat) : WFc keyEq (aSubEnd c g) := by
  obtain ⟨hs, hu, ha, hr, hc, hl, ho, hd, hp, hn⟩ := h
  unfold aSubEnd
  cases hg : c.gs[g]? with
  | none => exact ⟨hs, hu, ha, hr, hc, hl, ho, hd, hp, hn⟩
  | some r =>
    have hmem := mem_of_getElem? hg
    have hshape : liveW (c.gs.modify g fun r => { r with sub := .ended, holdsRef := false }) 0 = liveW c.gs 0 :=
      liveW_modify _ _ _ _ (fun _ => rfl) (fun _ => rfl)
    have hA : ∀ x ∈ c.gs.modify g (fun r => { r with sub := SubSt.ended, holdsRef := false }), x.sub = .active → x.stopped = false := by
      intro x hx; rcases mem_modify hx with h | ⟨a, _, rfl⟩
      · exact ha x h
      · intro h; cases h
    have hR : ∀ x ∈ c.gs.modify g (fun r => { r with sub := SubSt.ended, holdsRef := false }), x.holdsRef = true → x.sub = .active := by
      intro x hx; rcases mem_modify hx with h | ⟨a, _, rfl⟩
      · exact hr x h
      · intro h; cases h
    have hcnt := countP_modify_at c.gs g (fun r => { r with sub := SubSt.ended, holdsRef := false }) r hg
    simp only [Bool.toNat_false, Nat.add_zero] at hcnt
    have hNR : ∀ x ∈ c.gs.modify g (fun r => { r with sub := SubSt.ended, holdsRef := false }),
        (c.rcdDisposed = true ∨ (c.gs.modify g (fun r => { r with sub := SubSt.ended, holdsRef := false })).countP (·.holdsRef) = 0) →
        x.holdsRef = false := by
      intro x hx hor
      rcases hor with hd' | hz
      · rcases mem_modify hx with h | ⟨a, _, rfl⟩
        · exact hn hd' x h
        · rfl
      · have := List.countP_eq_zero.mp hz x hx
        simpa using this
    simp only
    by_cases hh : r.holdsRef
    · simp only [hh, if_true, Bool.toNat_true] at hcnt ⊢
      unfold aRelease aGd aMod
      by_cases h1 : c.rcdDisposed <;> by_cases h2 : c.primary <;> by_cases h3 : c.count - 1 = 0 <;>
        simp only [h1, h2, h3, if_true, if_false, Bool.false_eq_true, Bool.and_true, Bool.and_false, beq_self_eq_true, beq_iff_eq] <;>
        refine ⟨by simpa [hshape] using hs, hu, hA, hR, ?_, ?_, ?_, ?_, ?_, ?_⟩ <;>
        first
        | (simp_all <;> omega)
        | (intro hd' x hx; apply hNR x hx
           first
           | (left; simpa using h1)
           | (right; have hc' := hc (by simpa using h1); omega))
    · simp only [hh, Bool.false_eq_true, if_false, aMod, Bool.toNat_false, Nat.add_zero] at hcnt ⊢
      refine ⟨by simpa [hshape] using hs, hu, hA, hR, ?_, hl, ho, hd, hp, fun hd' x hx => hNR x hx (Or.inl hd')⟩
      intro hd'
      simpa [hcnt] using hc hd'

/-- closed form of `aWTerm` on the group list -/
def termG (r : CG κ) : CG κ :=
  if r.stopped then r
  else if r.sub = .active then { r with stopped := true, sub := .ended, holdsRef := false }
  else { r with stopped := true }

theorem modify_modify_same {A} (l : List A) (g : Nat) (f h : A → A) :
    (l.modify g f).modify g h = l.modify g (h ∘ f) := by
  induction l generalizing g with
  | nil => simp
  | cons a l ih => cases g <;> simp_all [List.modify]

theorem modify_congr_at {A} (l : List A) (g : Nat) (f h : A → A) (hh : ∀ a, l[g]? = some a → f a = h a) :
    l.modify g f = l.modify g h := by
  induction l generalizing g with
  | nil => simp
  | cons a l ih =>
    cases g with
    | zero => simp [hh a (by simp)]
    | succ g => simp only [List.modify_succ_cons]; rw [ih]; intro b hb; exact hh b (by simpa using hb)

theorem aWTerm_gs (c : Core κ) (g : Nat) : (aWTerm c g).gs = c.gs.modify g termG := by
  unfold aWTerm
  cases h : c.gs[g]? with
  | none =>
    simp only
    rw [List.modify_eq_self]; exact Nat.le_of_not_lt (fun hl => by simp [List.getElem?_eq_getElem hl] at h)
  | some r =>
    simp only
    by_cases hs : r.stopped
    · simp only [hs, if_true]
      rw [modify_congr_at c.gs g termG id]
      · simp
      · intro a ha; rw [h] at ha; cases ha; simp [termG, hs]
    · by_cases ha : r.sub = .active
      · simp only [hs, ha, Bool.false_eq_true, if_false, if_true, aSubEnd_gs, aMod, modify_modify_same]
        apply modify_congr_at; intro a h'; rw [h] at h'; cases h'; simp [termG, hs, ha]
      · simp only [hs, ha, Bool.false_eq_true, if_false, aMod]
        apply modify_congr_at; intro a h'; rw [h] at h'; cases h'; simp [termG, hs, ha]

/-- marking a group without active subscriber as stopped keeps the invariant -/
theorem wf_stop {c : Core κ} (h : WFc keyEq c) (g : Nat) (hg : ∀ r, c.gs[g]? = some r → r.sub ≠ .active) :
    WFc keyEq (aMod c g fun r => { r with stopped := true }) := by
  obtain ⟨hs, hu, ha, hr, hc, hl, ho, hd, hp, hn⟩ := h
  have hshape : liveW (c.gs.modify g fun r => { r with stopped := true }) 0 = liveW c.gs 0 :=
    liveW_modify _ _ _ _ (fun _ => rfl) (fun _ => rfl)
  refine ⟨by simpa [aMod, hshape] using hs, hu, ?_, ?_, ?_, hl, ho, hd, hp, ?_⟩
  rotate_right
  · intro hd' x hx; rcases mem_modify hx with h | ⟨a, h', rfl⟩
    · exact hn hd' x h
    · exact hn hd' a (mem_of_getElem? h')
  · intro x hx; rcases mem_modify hx with h | ⟨a, h', rfl⟩
    · exact ha x h
    · intro h; exact absurd h (hg a h')
  · intro x hx; rcases mem_modify hx with h | ⟨a, h', rfl⟩
    · exact hr x h
    · exact hr a (mem_of_getElem? h')
  · intro hd'
    have := hc hd'
    simp only [aMod] at this ⊢
    cases hg' : c.gs[g]? with
    | none =>
      rw [List.modify_eq_self]; exact this
      exact Nat.le_of_not_lt (fun hl => by simp [List.getElem?_eq_getElem hl] at hg')
    | some r =>
      have := countP_modify_at c.gs g (fun r => { r with stopped := true }) r hg'
      simp only at this; omega

theorem aRelease_aMod (c : Core κ) (g : Nat) (f : CG κ → CG κ) : aRelease (aMod c g f) = aMod (aRelease c) g f := by
  unfold aRelease aMod aGd
  by_cases h1 : c.rcdDisposed <;> by_cases h2 : (c.count - 1 == 0 && c.primary) <;> simp [h1, h2]

theorem modify_comm_same {A} (l : List A) (g : Nat) (f h : A → A) (hh : ∀ a, f (h a) = h (f a)) :
    (l.modify g h).modify g f = (l.modify g f).modify g h := by
  rw [modify_modify_same, modify_modify_same]; congr 1; funext a; exact hh a

theorem wf_aWTerm {c : Core κ} (h : WFc keyEq c) (g : Nat) : WFc keyEq (aWTerm c g) := by
  unfold aWTerm
  cases hg : c.gs[g]? with
  | none => exact h
  | some r =>
    simp only
    by_cases hs : r.stopped
    · simpa [hs] using h
    · by_cases ha : r.sub = .active
      · simp only [hs, ha, Bool.false_eq_true, if_false, if_true]
        -- commute: first end the subscription, then mark stopped
        have hcomm : aSubEnd (aMod c g fun r => { r with stopped := true }) g =
            aMod (aSubEnd c g) g fun r => { r with stopped := true } := by
          unfold aSubEnd
          have : (aMod c g fun r => { r with stopped := true }).gs[g]? = some { r with stopped := true } := by
            simp [aMod, List.getElem?_modify, hg]
          rw [this, hg]
          simp only
          by_cases hh : r.holdsRef
          · simp only [hh, if_true]
            rw [← aRelease_aMod]; congr 1
            simp only [aMod]; congr 1
            exact modify_comm_same _ _ _ _ (fun _ => rfl)
          · simp only [hh, Bool.false_eq_true, if_false, aMod]; congr 1
            exact modify_comm_same _ _ _ _ (fun _ => rfl)
        rw [hcomm]
        apply wf_stop (wf_aSubEnd h g)
        intro r' hr'
        rw [aSubEnd_gs, List.getElem?_modify, hg] at hr'
        simp at hr'; subst hr'; simp
      · simp only [hs, ha, Bool.false_eq_true, if_false]
        exact wf_stop h g (fun r' hr' => by rw [hg] at hr'; cases hr'; exact ha)

theorem wf_foldl_aWTerm {c : Core κ} (h : WFc keyEq c) (l : List Nat) : WFc keyEq (l.foldl aWTerm c) := by
  induction l generalizing c with
  | nil => exact h
  | cons a l ih => exact ih (wf_aWTerm h a)

theorem wf_aTermAll {c : Core κ} (h : WFc keyEq c) : WFc keyEq (aTermAll c) := wf_foldl_aWTerm h _

theorem wf_aOuterTerm {c : Core κ} (h : WFc keyEq c) : WFc keyEq (aOuterTerm c) := by
  unfold aOuterTerm
  by_cases ho : c.outStopped
  · simpa [ho] using h
  · simpa [ho] using (wf_aDispose h).1

theorem wf_aErrorAll {c : Core κ} (h : WFc keyEq c) : WFc keyEq (aErrorAll c) := wf_aOuterTerm (wf_aTermAll h)

/-! ### after `errorAll` the source subscription is gone -/

theorem termG_stopped (r : CG κ) : (termG r).stopped = true := by
  unfold termG; by_cases h : r.stopped <;> by_cases h2 : r.sub = .active <;> simp [h, h2]
theorem termG_expired (r : CG κ) : (termG r).expired = r.expired := by
  unfold termG; by_cases h : r.stopped <;> by_cases h2 : r.sub = .active <;> simp [h, h2]
theorem termG_key (r : CG κ) : (termG r).key = r.key := by
  unfold termG; by_cases h : r.stopped <;> by_cases h2 : r.sub = .active <;> simp [h, h2]

theorem foldl_aWTerm_get (c : Core κ) (l : List Nat) (j : Nat) (r' : CG κ)
    (h : (l.foldl aWTerm c).gs[j]? = some r') :
    ∃ r, c.gs[j]? = some r ∧ r'.expired = r.expired ∧ (r.stopped = true → r'.stopped = true) ∧
      (j ∈ l → r'.stopped = true) := by
  induction l generalizing c with
  | nil => exact ⟨r', h, rfl, id, by simp⟩
  | cons a l ih =>
    obtain ⟨r1, h1, he, hs, hm⟩ := ih (aWTerm c a) h
    rw [aWTerm_gs, List.getElem?_modify] at h1
    cases hc : c.gs[j]? with
    | none => simp [hc] at h1
    | some r =>
      simp only [hc, Option.map_some, Option.some.injEq] at h1
      refine ⟨r, rfl, ?_, ?_, ?_⟩
      · by_cases haj : a = j <;> simp [haj] at h1 <;> subst h1 <;> simp [he, termG_expired]
      · intro hr; apply hs
        by_cases haj : a = j <;> simp [haj] at h1 <;> subst h1 <;> simp [hr, termG_stopped]
      · intro hj
        rcases List.mem_cons.mp hj with rfl | hj
        · apply hs; simp at h1; subst h1; exact termG_stopped r
        · exact hm hj

theorem mem_liveW (l : List (CG κ)) (i j : Nat) (r : CG κ) (h : l[j]? = some r) (he : r.expired = false) :
    (i + j) ∈ (liveW l i).map (·.2) := by
  induction l generalizing i j with
  | nil => simp at h
  | cons a l ih =>
    cases j with
    | zero =>
      simp only [List.getElem?_cons_zero, Option.some.injEq] at h; subst h
      simp [liveW, he]
    | succ j =>
      simp only [List.getElem?_cons_succ] at h
      have := ih (i + 1) j h
      have e : i + 1 + j = i + (j + 1) := by omega
      rw [e] at this
      unfold liveW; split <;> simp_all

/-- an expired group's writer has completed -/
def ESc (c : Core κ) : Prop := ∀ r ∈ c.gs, r.expired = true → r.stopped = true

theorem aTermAll_all_stopped {c : Core κ} (h : WFc keyEq c) (hes : ESc c) : ∀ r ∈ (aTermAll c).gs, r.stopped = true := by
  intro r' hr'
  obtain ⟨j, hj⟩ := List.getElem?_of_mem hr'
  obtain ⟨r, hr, he, hs, hm⟩ := foldl_aWTerm_get c _ j r' hj
  by_cases hx : r.expired
  · exact hs (hes r (mem_of_getElem? hr) hx)
  · apply hm
    have := mem_liveW c.gs 0 j r hr (by simpa using hx)
    rw [h.shape]; simpa using this

theorem countP_eq_zero_of {l : List (CG κ)} (h : ∀ r ∈ l, r.holdsRef = false) : l.countP (·.holdsRef) = 0 := by
  rw [List.countP_eq_zero]; intro r hr; simp [h r hr]

theorem aErrorAll_srcStopped {c : Core κ} (h : WFc keyEq c) (hes : ESc c) : (aErrorAll c).srcStopped = true := by
  have hw := wf_aTermAll h
  have hall := aTermAll_all_stopped h hes
  have hcnt : (aTermAll c).rcdDisposed = false → (aTermAll c).count = 0 := by
    intro hd
    rw [hw.cnt hd]
    apply countP_eq_zero_of
    intro r hr
    cases hh : r.holdsRef with
    | false => rfl
    | true =>
      have := hw.act_open r hr (hw.ref_act r hr hh)
      rw [hall r hr] at this; cases this
  unfold aErrorAll aOuterTerm aDispose aGd
  generalize aTermAll c = d at *
  obtain ⟨_, _, _, _, _, hl, ho, hd, hp, _⟩ := hw
  by_cases h0 : d.outStopped <;> by_cases h1 : d.rcdDisposed <;> by_cases h2 : d.primary <;> by_cases h3 : d.count = 0 <;>
    simp_all
/-! ### the tracked part of every group: key, writer state, writer log -/
structure TG (κ β : Type) where
  key : κ
  stopped : Bool
  expired : Bool
  wlog : List (Notif β)

def tg (r : Grp κ β) : TG κ β := ⟨r.key, r.stopped, r.expired, r.wlog⟩
def trk (s : St κ β) : List (TG κ β) := s.groups.map tg

theorem trk_modGrp (s : St κ β) (g : Nat) (f : Grp κ β → Grp κ β) (f' : TG κ β → TG κ β)
    (h : ∀ r, tg (f r) = f' (tg r)) : trk (modGrp s g f) = (trk s).modify g f' := by
  simp [trk, map_modify_comm tg f f' _ _ h]

theorem trk_modGrp_same (s : St κ β) (g : Nat) (f : Grp κ β → Grp κ β)
    (h : ∀ r, tg (f r) = tg r) : trk (modGrp s g f) = trk s := by
  simp [trk, map_modify_same tg f _ _ h]

@[simp] theorem trk_emit (s : St κ β) (e) : trk (emit s e) = trk s := rfl

theorem trk_closeDur (s : St κ β) (g : Nat) : trk (closeDur s g) = trk s := by
  unfold closeDur
  split
  · split
    · rw [trk_emit, trk_modGrp_same]; intro r; rfl
    · rfl
  · rfl

theorem trk_closeSrc (s : St κ β) : trk (closeSrc s) = trk s := by
  unfold closeSrc; split <;> rfl

theorem trk_foldl_closeDur (s : St κ β) (l : List Nat) : trk (l.foldl closeDur s) = trk s := by
  induction l generalizing s with
  | nil => rfl
  | cons a l ih => simp [List.foldl, ih, trk_closeDur]

theorem trk_gdDispose (s : St κ β) : trk (gdDispose s) = trk s := by
  unfold gdDispose
  simp only [trk_foldl_closeDur, trk_closeSrc]; rfl

theorem trk_rcdDispose (s : St κ β) : trk (rcdDispose s) = trk s := by
  unfold rcdDispose
  split
  · rfl
  · split
    · simp only; split
      · rw [trk_gdDispose]; rfl
      · rfl
    · rfl

theorem trk_rcdRelease (s : St κ β) : trk (rcdRelease s) = trk s := by
  unfold rcdRelease
  split
  · rfl
  · simp only; split
    · rw [trk_gdDispose]; rfl
    · rfl

theorem trk_subEnd (s : St κ β) (g : Nat) : trk (subEnd s g) = trk s := by
  unfold subEnd
  split
  · simp only; split
    · rw [trk_rcdRelease, trk_modGrp_same]; intro _; rfl
    · rw [trk_modGrp_same]; intro _; rfl
  · rfl

def pushT (n : Notif β) (t : TG κ β) : TG κ β := if t.stopped then t else { t with wlog := t.wlog ++ [n] }
def termT (n : Notif β) (t : TG κ β) : TG κ β := if t.stopped then t else { t with stopped := true, wlog := t.wlog ++ [n] }

theorem trk_getElem? (s : St κ β) (g : Nat) : (trk s)[g]? = (s.groups[g]?).map tg := by simp [trk]

theorem modify_eq_of_none {A} (l : List A) (g : Nat) (f : A → A) (h : l[g]? = none) : l.modify g f = l := by
  rw [List.modify_eq_self]; exact Nat.le_of_not_lt (fun hl => by simp [List.getElem?_eq_getElem hl] at h)

theorem trk_writerNext (s : St κ β) (g : Nat) (v : β) :
    trk (writerNext s g v) = (trk s).modify g (pushT (.next v)) := by
  unfold writerNext
  cases h : s.groups[g]? with
  | none => simp only; rw [modify_eq_of_none]; simp [trk_getElem?, h]
  | some r =>
    simp only
    have hcong : ∀ f : TG κ β → TG κ β, f (tg r) = pushT (.next v) (tg r) → (trk s).modify g f = (trk s).modify g (pushT (.next v)) := by
      intro f hf; apply modify_congr_at; intro a ha; rw [trk_getElem?, h] at ha; cases ha; exact hf
    by_cases hs : r.stopped
    · simp only [hs, if_true]
      rw [← hcong id (by simp [pushT, tg, hs])]; simp
    · by_cases ha : r.sub = .active
      · simp only [hs, ha, Bool.false_eq_true, if_false, if_true, trk_emit]
        rw [trk_modGrp_same _ _ _ (by intro _; rfl), trk_emit,
          trk_modGrp _ _ _ (fun t => { t with wlog := t.wlog ++ [.next v] }) (by intro _; rfl)]
        apply hcong; simp [pushT, tg, hs]
      · simp only [hs, ha, Bool.false_eq_true, if_false, trk_emit]
        rw [trk_modGrp _ _ _ (fun t => { t with wlog := t.wlog ++ [.next v] }) (by intro _; rfl)]
        apply hcong; simp [pushT, tg, hs]

theorem trk_writerTerm (s : St κ β) (g : Nat) (n : Notif β) :
    trk (writerTerm s g n) = (trk s).modify g (termT n) := by
  unfold writerTerm
  cases h : s.groups[g]? with
  | none => simp only; rw [modify_eq_of_none]; simp [trk_getElem?, h]
  | some r =>
    simp only
    have hcong : ∀ f : TG κ β → TG κ β, f (tg r) = termT n (tg r) → (trk s).modify g f = (trk s).modify g (termT n) := by
      intro f hf; apply modify_congr_at; intro a ha; rw [trk_getElem?, h] at ha; cases ha; exact hf
    by_cases hs : r.stopped
    · simp only [hs, if_true]
      rw [← hcong id (by simp [termT, tg, hs])]; simp
    · by_cases ha : r.sub = .active
      · simp only [hs, ha, Bool.false_eq_true, if_false, if_true, trk_emit, trk_subEnd]
        rw [trk_modGrp_same _ _ _ (by intro _; rfl), trk_emit,
          trk_modGrp _ _ _ (fun t => { t with stopped := true, wlog := t.wlog ++ [n] }) (by intro _; rfl)]
        apply hcong; simp [termT, tg, hs]
      · simp only [hs, ha, Bool.false_eq_true, if_false, trk_emit]
        rw [trk_modGrp _ _ _ (fun t => { t with stopped := true, wlog := t.wlog ++ [n] }) (by intro _; rfl)]
        apply hcong; simp [termT, tg, hs]

theorem trk_foldl_writerTerm (s : St κ β) (l : List Nat) (n : Notif β) :
    trk (l.foldl (fun s g => writerTerm s g n) s) = l.foldl (fun t g => t.modify g (termT n)) (trk s) := by
  induction l generalizing s with
  | nil => rfl
  | cons a l ih => simp [List.foldl, ih, trk_writerTerm]

theorem trk_termAll (s : St κ β) (n : Notif β) :
    trk (termAll s n) = (s.writers.map (·.2)).foldl (fun t g => t.modify g (termT n)) (trk s) := by
  unfold termAll; rw [trk_foldl_writerTerm]

theorem trk_outerTerm (s : St κ β) (n) : trk (outerTerm s n) = trk s := by
  unfold outerTerm; split
  · rfl
  · rw [trk_rcdDispose]; rfl

theorem trk_errorAll (s : St κ β) (e : Err) :
    trk (errorAll s e) = (s.writers.map (·.2)).foldl (fun t g => t.modify g (termT (.error e))) (trk s) := by
  unfold errorAll; rw [trk_outerTerm, trk_termAll]; rfl

theorem trk_subscribeGroup (s : St κ β) (g : Nat) : trk (subscribeGroup s g) = trk s := by
  unfold subscribeGroup
  split
  · split
    · rfl
    · simp only; split
      · rw [trk_modGrp_same]; rfl; intro _; rfl
      · rw [trk_subEnd, trk_emit, trk_modGrp_same]; rfl; intro _; rfl
  · rfl

/-! ### group subscription -/
def aSubscribe (c : Core κ) (g : Nat) : Core κ :=
  match c.gs[g]? with
  | some r =>
    if r.sub ≠ .none ∨ r.announced = false then c
    else
      let held := !c.rcdDisposed
      let c := { c with count := if held then c.count + 1 else c.count }
      if !r.stopped then aMod c g fun r => { r with sub := .active, holdsRef := held }
      else aSubEnd (aMod c g fun r => { r with sub := .active, holdsRef := held }) g
  | none => c

theorem core_subscribeGroup (s : St κ β) (g : Nat) : core (subscribeGroup s g) = aSubscribe (core s) g := by
  unfold subscribeGroup aSubscribe
  rw [core_getElem?]
  cases h : s.groups[g]? with
  | none => rfl
  | some r =>
    simp only [Option.map_some]
    by_cases h1 : (r.sub ≠ .none ∨ r.announced = false)
    · have : ((cg r).sub ≠ .none ∨ (cg r).announced = false) := h1
      simp only [h1, this, if_true]
    · have : ¬ ((cg r).sub ≠ .none ∨ (cg r).announced = false) := h1
      simp only [h1, this, if_false]
      have hst : (cg r).stopped = r.stopped := rfl
      by_cases h2 : r.stopped
      · simp only [hst, h2, Bool.not_true, Bool.false_eq_true, if_false, core_subEnd, core_emit]
        congr 1
        exact core_modGrp _ _ _ _ (fun _ => rfl)
      · simp only [hst, h2, Bool.not_false, if_true]
        exact core_modGrp _ _ _ _ (fun _ => rfl)

variable {keyEq : κ → κ → Bool}

theorem wf_aSubscribe {c : Core κ} (h : WFc keyEq c) (g : Nat) : WFc keyEq (aSubscribe c g) := by
  unfold aSubscribe
  cases hg : c.gs[g]? with
  | none => exact h
  | some r =>
    simp only
    by_cases h1 : (r.sub ≠ .none ∨ r.announced = false)
    · simpa [h1] using h
    · simp only [h1, if_false]
      have hsub : r.sub = .none := by
        simp only [not_or, ne_eq, Decidable.not_not] at h1
        exact h1.1
      have hmem := mem_of_getElem? hg
      have href : r.holdsRef = false := by
        cases hh : r.holdsRef with
        | false => rfl
        | true => have := h.ref_act r hmem hh; rw [hsub] at this; cases this
      by_cases h2 : r.stopped
      · -- replay on a stopped writer: the transient reference is released again
        simp only [h2, Bool.not_true, Bool.false_eq_true, if_false]
        have : aSubEnd (aMod { c with count := if (!c.rcdDisposed) = true then c.count + 1 else c.count } g
            fun r => { r with sub := .active, holdsRef := !c.rcdDisposed }) g = aSubEnd c g := by
          unfold aSubEnd
          have e1 : (aMod { c with count := if (!c.rcdDisposed) = true then c.count + 1 else c.count } g
              fun r => { r with sub := .active, holdsRef := !c.rcdDisposed }).gs[g]? =
              some { r with sub := .active, holdsRef := !c.rcdDisposed } := by
            simp [aMod, List.getElem?_modify, hg]
          rw [e1, hg]
          simp only [href, Bool.false_eq_true, if_false]
          have e2 : ∀ b : Bool, ((c.gs.modify g fun r => { r with sub := SubSt.active, holdsRef := b }).modify g
              fun r => { r with sub := SubSt.ended, holdsRef := false }) =
              c.gs.modify g fun r => { r with sub := SubSt.ended, holdsRef := false } := by
            intro b; rw [modify_modify_same]; rfl
          by_cases hd : c.rcdDisposed
          · simp [hd, aMod, e2]
          · have hp := h.prim_cnt
            simp only [hd, Bool.not_false, if_true, aMod, e2]
            unfold aRelease aGd
            simp only [hd, Bool.false_eq_true, if_false, Nat.add_sub_cancel]
            by_cases hpr : c.primary
            · have := hp hpr (by simpa using hd)
              simp [hpr, this]
            · simp [hpr]
        rw [this]; exact wf_aSubEnd h g
      · simp only [h2, Bool.not_false, if_true]
        obtain ⟨hs, hu, ha, hr, hc, hl, ho, hd, hp, hn⟩ := h
        have hshape : liveW (c.gs.modify g fun r => { r with sub := .active, holdsRef := !c.rcdDisposed }) 0 = liveW c.gs 0 :=
          liveW_modify _ _ _ _ (fun _ => rfl) (fun _ => rfl)
        have hcnt := countP_modify_at c.gs g (fun r => { r with sub := .active, holdsRef := !c.rcdDisposed }) r hg
        simp only [href, Bool.toNat_false, Nat.add_zero] at hcnt
        refine ⟨by simpa [aMod, hshape] using hs, hu, ?_, ?_, ?_, hl, ho, hd, ?_, ?_⟩
        rotate_right
        · intro hd' x hx
          simp only [aMod] at hd' hx
          rcases mem_modify hx with h | ⟨a, h', rfl⟩
          · exact hn hd' x h
          · simp [hd']
        · intro x hx; rcases mem_modify hx with h | ⟨a, h', rfl⟩
          · exact ha x h
          · intro _; rw [hg] at h'; cases h'; simpa using h2
        · intro x hx; rcases mem_modify hx with h | ⟨a, h', rfl⟩
          · exact hr x h
          · intro _; rfl
        · intro hd'
          have := hc hd'
          simp only [aMod] at hd' this ⊢
          simp only [hd', Bool.not_false, if_true, Bool.toNat_true] at hcnt ⊢
          omega
        · intro hp1 hd'
          have := hp hp1 hd'
          simp only [aMod] at hd' this ⊢
          simp only [hd', Bool.not_false, if_true]; omega

/-! ### expire -/
def aExpire (keyEq : κ → κ → Bool) (c : Core κ) (g : Nat) (n : Unit) : Core κ :=
  match c.gs[g]? with
  | some r =>
    match c.writers.find? (fun p => keyEq p.1 r.key) with
    | none => c
    | some _ =>
      aWTerm { aMod c g (fun r => { r with expired := true }) with
                writers := c.writers.eraseP (fun p => keyEq p.1 r.key) } g
  | none => c

theorem core_expire (cfg : Cfg α κ β) (s : St κ β) (g : Nat) : core (expire cfg s g) = aExpire cfg.keyEq (core s) g () := by
  unfold expire aExpire
  rw [core_getElem?]
  cases h : s.groups[g]? with
  | none => rfl
  | some r =>
    simp only [Option.map_some, core_writers]
    have hk : (cg r).key = r.key := rfl
    rw [hk]
    cases hf : s.writers.find? (fun p => cfg.keyEq p.1 r.key) with
    | none => rfl
    | some p =>
      simp only
      have e : core (writerTerm (modGrp { s with writers := s.writers.eraseP (fun p => cfg.keyEq p.1 r.key) } g
          fun r => { r with expired := true }) g Notif.completed) =
          aWTerm { aMod (core s) g (fun r => { r with expired := true }) with
                writers := s.writers.eraseP (fun p => cfg.keyEq p.1 r.key) } g := by
        rw [core_writerTerm]; congr 1
        rw [core_modGrp _ _ _ (fun r => { r with expired := true }) (fun _ => rfl)]; rfl
      split
      · exact e
      · rw [core_closeDur]; exact e

theorem mem_liveW_pair (l : List (CG κ)) (i j : Nat) (r : CG κ) (h : l[j]? = some r) (he : r.expired = false) :
    (r.key, i + j) ∈ liveW l i := by
  induction l generalizing i j with
  | nil => simp at h
  | cons a l ih =>
    cases j with
    | zero =>
      simp only [List.getElem?_cons_zero, Option.some.injEq] at h; subst h
      simp [liveW, he]
    | succ j =>
      simp only [List.getElem?_cons_succ] at h
      have := ih (i + 1) j h
      have e : i + 1 + j = i + (j + 1) := by omega
      rw [e] at this
      unfold liveW; split <;> simp_all

theorem liveW_expire (hrefl : ∀ k, keyEq k k = true) (l : List (CG κ)) (g i : Nat) (r : CG κ) (hg : l[g]? = some r)
    (he : r.expired = false) (hp : (liveW l i).Pairwise (fun a b => keyEq a.1 b.1 = false)) :
    liveW (l.modify g fun r => { r with expired := true }) i = (liveW l i).eraseP (fun p => keyEq p.1 r.key) := by
  induction l generalizing g i with
  | nil => simp at hg
  | cons a l ih =>
    cases g with
    | zero =>
      simp only [List.getElem?_cons_zero, Option.some.injEq] at hg; subst hg
      simp [liveW, he, hrefl]
    | succ g =>
      simp only [List.getElem?_cons_succ] at hg
      simp only [List.modify_succ_cons]
      by_cases ha : a.expired
      · simp only [liveW, ha, if_true] at hp ⊢
        exact ih g (i + 1) hg hp
      · simp only [liveW, ha, Bool.false_eq_true, if_false] at hp ⊢
        rw [List.pairwise_cons] at hp
        have hm := mem_liveW_pair l (i + 1) g r hg he
        have hne := hp.1 _ hm
        simp only at hne
        rw [List.eraseP_cons_of_neg (by simp [hne])]
        rw [ih g (i + 1) hg hp.2]

theorem find?_isSome_of_mem (hrefl : ∀ k, keyEq k k = true) (w : List (κ × Nat)) (k : κ) (g : Nat) (h : (k, g) ∈ w) :
    (w.find? (fun p => keyEq p.1 k)).isSome = true := by
  rw [List.find?_isSome]; exact ⟨(k, g), h, hrefl k⟩

theorem wf_aExpire (hrefl : ∀ k, keyEq k k = true) {c : Core κ} (h : WFc keyEq c) (g : Nat)
    (hne : ∀ r, c.gs[g]? = some r → r.expired = false) : WFc keyEq (aExpire keyEq c g ()) := by
  unfold aExpire
  cases hg : c.gs[g]? with
  | none => exact h
  | some r =>
    simp only
    cases hf : c.writers.find? (fun p => keyEq p.1 r.key) with
    | none => exact h
    | some p =>
      simp only
      apply wf_aWTerm
      have he := hne r hg
      obtain ⟨hs, hu, ha, hr, hc, hl, ho, hd, hp, hn⟩ := h
      have hcnt := countP_modify_at c.gs g (fun r => { r with expired := true }) r hg
      refine ⟨?_, ?_, ?_, ?_, ?_, hl, ho, hd, hp, ?_⟩
      rotate_right
      · intro hd' x hx; rcases mem_modify hx with h | ⟨a, h', rfl⟩
        · exact hn hd' x h
        · exact hn hd' a (mem_of_getElem? h')
      · simp only [aMod]
        rw [liveW_expire hrefl c.gs g 0 r hg he (by rw [← hs]; exact hu), hs]
      · exact List.Pairwise.sublist (List.eraseP_sublist) hu
      · intro x hx; rcases mem_modify hx with h | ⟨a, h', rfl⟩
        · exact ha x h
        · exact ha a (mem_of_getElem? h')
      · intro x hx; rcases mem_modify hx with h | ⟨a, h', rfl⟩
        · exact hr x h
        · exact hr a (mem_of_getElem? h')
      · intro hd'
        have := hc hd'
        simp only [aMod] at this ⊢
        simp only at hcnt; omega

/-! ### duration subscriptions only ever close; `expired` is only set by `expire` -/
def DE (s s' : St κ β) : Prop :=
  ∀ (j : Nat) (r' : Grp κ β), s'.groups[j]? = some r' →
    ∃ r : Grp κ β, s.groups[j]? = some r ∧ (r'.dur = DurSt.live → r.dur = DurSt.live) ∧ r'.expired = r.expired

theorem DE.refl (s : St κ β) : DE s s := fun _ r' h => ⟨r', h, id, rfl⟩
theorem DE.trans {s1 s2 s3 : St κ β} (h1 : DE s1 s2) (h2 : DE s2 s3) : DE s1 s3 := by
  intro j r3 h3
  obtain ⟨r2, hr2, hd2, he2⟩ := h2 j r3 h3
  obtain ⟨r1, hr1, hd1, he1⟩ := h1 j r2 hr2
  exact ⟨r1, hr1, fun h => hd1 (hd2 h), he2.trans he1⟩

theorem DE_of_groups_eq {s s' : St κ β} (h : s'.groups = s.groups) : DE s s' := by
  intro j r' hr'; rw [h] at hr'; exact ⟨r', hr', id, rfl⟩

theorem DE_modGrp (s : St κ β) (g : Nat) (f : Grp κ β → Grp κ β)
    (hf : ∀ r, ((f r).dur = .live → r.dur = .live) ∧ (f r).expired = r.expired) : DE s (modGrp s g f) := by
  intro j r' hr'
  simp only [modGrp_groups, List.getElem?_modify] at hr'
  cases h : s.groups[j]? with
  | none => simp [h] at hr'
  | some r =>
    refine ⟨r, rfl, ?_⟩
    by_cases hgj : g = j
    · simp only [h, hgj, if_true, Option.map_eq_map, Option.map_some, Option.some.injEq] at hr'; subst hr'; exact hf r
    · simp only [h, hgj, if_false, Option.map_eq_map, Option.map_some, Option.some.injEq] at hr'; subst hr'; exact ⟨id, rfl⟩

theorem DE_emit (s : St κ β) (e) : DE s (emit s e) := DE_of_groups_eq rfl

/-- peel one constructor off the right-hand state -/
macro "de_peel" : tactic => `(tactic| first
  | exact DE.refl _
  | exact DE_of_groups_eq rfl
  | refine DE.trans ?_ (DE_emit _ _)
  | (refine DE.trans ?_ (DE_modGrp _ _ _ (fun r => ?_)); rotate_left; (first | exact ⟨id, rfl⟩ | exact ⟨by intro h; cases h, rfl⟩)))

theorem DE_closeDur (s : St κ β) (g : Nat) : DE s (closeDur s g) := by
  unfold closeDur
  split
  · split
    · refine DE.trans ?_ (DE_emit _ _)
      apply DE_modGrp
      intro r; exact ⟨fun h => by simp at h, rfl⟩
    · exact DE.refl _
  · exact DE.refl _

theorem DE_closeSrc (s : St κ β) : DE s (closeSrc s) := by
  unfold closeSrc; split <;> repeat de_peel

theorem DE_foldl_closeDur (s : St κ β) (l : List Nat) : DE s (l.foldl closeDur s) := by
  induction l generalizing s with
  | nil => exact DE.refl _
  | cons a l ih => exact (DE_closeDur s a).trans (ih _)

theorem DE_gdDispose (s : St κ β) : DE s (gdDispose s) := by
  unfold gdDispose
  refine DE.trans ?_ (DE_foldl_closeDur _ _)
  refine DE.trans ?_ (DE_closeSrc _)
  exact DE_of_groups_eq rfl

theorem DE_rcdDispose (s : St κ β) : DE s (rcdDispose s) := by
  unfold rcdDispose
  split
  · exact DE.refl _
  · split
    · simp only; split
      · refine DE.trans ?_ (DE_gdDispose _); exact DE_of_groups_eq rfl
      · exact DE_of_groups_eq rfl
    · exact DE.refl _

theorem DE_rcdRelease (s : St κ β) : DE s (rcdRelease s) := by
  unfold rcdRelease
  split
  · exact DE.refl _
  · simp only; split
    · refine DE.trans ?_ (DE_gdDispose _); exact DE_of_groups_eq rfl
    · exact DE_of_groups_eq rfl

theorem DE_subEnd (s : St κ β) (g : Nat) : DE s (subEnd s g) := by
  unfold subEnd
  split
  · simp only; split
    · refine DE.trans ?_ (DE_rcdRelease _); repeat de_peel
    · repeat de_peel
  · exact DE.refl _

theorem DE_writerNext (s : St κ β) (g : Nat) (v : β) : DE s (writerNext s g v) := by
  unfold writerNext
  split
  · split
    · exact DE.refl _
    · simp only; split <;> repeat de_peel
  · exact DE.refl _

theorem DE_writerTerm (s : St κ β) (g : Nat) (n : Notif β) : DE s (writerTerm s g n) := by
  unfold writerTerm
  split
  · split
    · exact DE.refl _
    · simp only; split
      · refine DE.trans ?_ (DE_subEnd _ _); repeat de_peel
      · repeat de_peel
  · exact DE.refl _

theorem DE_foldl_writerTerm (s : St κ β) (l : List Nat) (n : Notif β) :
    DE s (l.foldl (fun s g => writerTerm s g n) s) := by
  induction l generalizing s with
  | nil => exact DE.refl _
  | cons a l ih => exact (DE_writerTerm s a n).trans (ih _)

theorem DE_termAll (s : St κ β) (n : Notif β) : DE s (termAll s n) := DE_foldl_writerTerm _ _ _

theorem DE_outerTerm (s : St κ β) (n) : DE s (outerTerm s n) := by
  unfold outerTerm; split
  · exact DE.refl _
  · refine DE.trans ?_ (DE_rcdDispose _); repeat de_peel

theorem DE_errorAll (s : St κ β) (e : Err) : DE s (errorAll s e) :=
  ((DE_of_groups_eq rfl : DE s { s with failed := true }).trans (DE_termAll _ _)).trans (DE_outerTerm _ _)

theorem DE_subscribeGroup (s : St κ β) (g : Nat) : DE s (subscribeGroup s g) := by
  unfold subscribeGroup
  split
  · split
    · exact DE.refl _
    · simp only; split
      · repeat de_peel
      · refine DE.trans ?_ (DE_subEnd _ _); repeat de_peel
  · exact DE.refl _

/-- dur live ⇒ not expired -/
def DL (s : St κ β) : Prop := ∀ (j : Nat) (r : Grp κ β), s.groups[j]? = some r → r.dur = DurSt.live → r.expired = false

theorem DL_of_DE {s s' : St κ β} (h : DL s) (hde : DE s s') : DL s' := by
  intro j r' hr' hl
  obtain ⟨r, hr, hd, he⟩ := hde j r' hr'
  rw [he]; exact h j r hr (hd hl)
/-! ### the step invariant -/
def WF (cfg : Cfg α κ β) (s : St κ β) : Prop := WFc cfg.keyEq (core s)
/-- an expired group's writer has completed -/
def ES (s : St κ β) : Prop := ∀ t ∈ trk s, t.expired = true → t.stopped = true
/-- while the source is subscribed the only stopped writers are the expired ones -/
def LO (s : St κ β) : Prop := s.srcStopped = false → ∀ t ∈ trk s, t.stopped = true → t.expired = true

structure Inv (cfg : Cfg α κ β) (s : St κ β) : Prop where
  wf : WF cfg s
  es : ES s
  dl : DL s
  lo : LO s

theorem ESc_of_ES {s : St κ β} (h : ES s) : ESc (core s) := by
  intro r hr he
  simp only [core_gs, List.mem_map] at hr
  obtain ⟨a, ha, rfl⟩ := hr
  exact h (tg a) (List.mem_map.mpr ⟨a, ha, rfl⟩) he

theorem all_modify {A} {P : A → Prop} {l : List A} {g : Nat} {f : A → A} (h : ∀ a ∈ l, P a) (hf : ∀ a, P a → P (f a)) :
    ∀ a ∈ l.modify g f, P a := by
  intro a ha
  rcases mem_modify ha with h' | ⟨b, hb, rfl⟩
  · exact h a h'
  · exact hf b (h b (mem_of_getElem? hb))

theorem all_foldl_modify {A} {P : A → Prop} {f : A → A} (hf : ∀ a, P a → P (f a)) (idx : List Nat) (l : List A)
    (h : ∀ a ∈ l, P a) : ∀ a ∈ idx.foldl (fun t g => t.modify g f) l, P a := by
  induction idx generalizing l with
  | nil => exact h
  | cons i idx ih => exact ih _ (all_modify h hf)

theorem termT_stopped (n : Notif β) (t : TG κ β) : (termT n t).stopped = true := by
  unfold termT; by_cases h : t.stopped <;> simp [h]
theorem termT_expired (n : Notif β) (t : TG κ β) : (termT n t).expired = t.expired := by
  unfold termT; by_cases h : t.stopped <;> simp [h]
theorem termT_key (n : Notif β) (t : TG κ β) : (termT n t).key = t.key := by
  unfold termT; by_cases h : t.stopped <;> simp [h]
theorem pushT_stopped (n : Notif β) (t : TG κ β) : (pushT n t).stopped = t.stopped := by
  unfold pushT; by_cases h : t.stopped <;> simp [h]
theorem pushT_expired (n : Notif β) (t : TG κ β) : (pushT n t).expired = t.expired := by
  unfold pushT; by_cases h : t.stopped <;> simp [h]
theorem pushT_key (n : Notif β) (t : TG κ β) : (pushT n t).key = t.key := by
  unfold pushT; by_cases h : t.stopped <;> simp [h]

/-! monotonicity of `srcStopped` under the core functions -/
theorem aRelease_mono (c : Core κ) (h : c.srcStopped = true) : (aRelease c).srcStopped = true := by
  unfold aRelease aGd; split
  · exact h
  · split <;> simp [h]
theorem aDispose_mono (c : Core κ) (h : c.srcStopped = true) : (aDispose c).srcStopped = true := by
  unfold aDispose aGd; split
  · exact h
  · split
    · split <;> simp [h]
    · exact h
theorem aSubEnd_mono (c : Core κ) (g : Nat) (h : c.srcStopped = true) : (aSubEnd c g).srcStopped = true := by
  unfold aSubEnd; split
  · simp only; split
    · exact aRelease_mono _ h
    · exact h
  · exact h
theorem aWTerm_mono (c : Core κ) (g : Nat) (h : c.srcStopped = true) : (aWTerm c g).srcStopped = true := by
  unfold aWTerm; split
  · split
    · exact h
    · simp only; split
      · exact aSubEnd_mono _ _ h
      · exact h
  · exact h
theorem aSubscribe_mono (c : Core κ) (g : Nat) (h : c.srcStopped = true) : (aSubscribe c g).srcStopped = true := by
  unfold aSubscribe; split
  · split
    · exact h
    · simp only; split
      · exact h
      · exact aSubEnd_mono _ _ h
  · exact h
theorem aExpire_mono (keyEq : κ → κ → Bool) (c : Core κ) (g : Nat) (h : c.srcStopped = true) :
    (aExpire keyEq c g ()).srcStopped = true := by
  unfold aExpire; split
  · split
    · exact h
    · exact aWTerm_mono _ _ h
  · exact h

/-- a transformer that leaves the tracked part alone -/
theorem inv_of_trk_same {cfg : Cfg α κ β} {s s' : St κ β} (h : Inv cfg s) (hw : WF cfg s') (ht : trk s' = trk s)
    (hde : DE s s') (hm : s.srcStopped = true → s'.srcStopped = true) : Inv cfg s' := by
  refine ⟨hw, ?_, DL_of_DE h.dl hde, ?_⟩
  · unfold ES; rw [ht]; exact h.es
  · unfold LO; rw [ht]; intro hs
    apply h.lo
    cases h' : s.srcStopped with
    | false => rfl
    | true => rw [hm h'] at hs; cases hs

theorem inv_closeDur {cfg : Cfg α κ β} {s : St κ β} (h : Inv cfg s) (g : Nat) : Inv cfg (closeDur s g) :=
  inv_of_trk_same h (by unfold WF; rw [core_closeDur]; exact h.wf) (trk_closeDur s g) (DE_closeDur s g)
    (by intro hs; have := congrArg Core.srcStopped (core_closeDur s g); simpa [hs] using this)

theorem inv_closeSrc {cfg : Cfg α κ β} {s : St κ β} (h : Inv cfg s) : Inv cfg (closeSrc s) :=
  inv_of_trk_same h (by unfold WF; rw [core_closeSrc]; exact h.wf) (trk_closeSrc s) (DE_closeSrc s)
    (by intro hs; have := congrArg Core.srcStopped (core_closeSrc s); simpa [hs] using this)

theorem inv_subscribeGroup {cfg : Cfg α κ β} {s : St κ β} (h : Inv cfg s) (g : Nat) : Inv cfg (subscribeGroup s g) :=
  inv_of_trk_same h (by unfold WF; rw [core_subscribeGroup]; exact wf_aSubscribe h.wf g) (trk_subscribeGroup s g)
    (DE_subscribeGroup s g)
    (by intro hs; have := congrArg Core.srcStopped (core_subscribeGroup s g)
        simp only [core_srcStopped] at this; rw [this]; exact aSubscribe_mono _ _ hs)

theorem subscribeLate_cases (s : St κ β) (g : Nat) :
    subscribeLate s g = s ∨ subscribeLate s g = modGrp (subscribeGroup s g) g (fun r => { r with subLate := true }) := by
  unfold subscribeLate; split
  · split
    · right; rfl
    · left; rfl
  · left; rfl

theorem inv_markLate {cfg : Cfg α κ β} {s : St κ β} (h : Inv cfg s) (g : Nat) :
    Inv cfg (modGrp s g fun r => { r with subLate := true }) :=
  inv_of_trk_same h (by unfold WF; rw [core_modGrp_same]; exact h.wf; intro _; rfl)
    (by rw [trk_modGrp_same]; intro _; rfl) (DE_modGrp s g _ (fun _ => ⟨id, rfl⟩)) (fun hs => hs)

theorem inv_subscribeLate {cfg : Cfg α κ β} {s : St κ β} (h : Inv cfg s) (g : Nat) : Inv cfg (subscribeLate s g) := by
  rcases subscribeLate_cases s g with e | e <;> rw [e]
  · exact h
  · exact inv_markLate (inv_subscribeGroup h g) g

theorem trk_subscribeLate (s : St κ β) (g : Nat) : trk (subscribeLate s g) = trk s := by
  rcases subscribeLate_cases s g with e | e <;> rw [e]
  rw [trk_modGrp_same, trk_subscribeGroup]; intro _; rfl

theorem inv_subEnd {cfg : Cfg α κ β} {s : St κ β} (h : Inv cfg s) (g : Nat) : Inv cfg (subEnd s g) :=
  inv_of_trk_same h (by unfold WF; rw [core_subEnd]; exact wf_aSubEnd h.wf g) (trk_subEnd s g) (DE_subEnd s g)
    (by intro hs; have := congrArg Core.srcStopped (core_subEnd s g)
        simp only [core_srcStopped] at this; rw [this]; exact aSubEnd_mono _ _ hs)

theorem inv_disposeOuter {cfg : Cfg α κ β} {s : St κ β} (h : Inv cfg s) : Inv cfg (rcdDispose { s with outStopped := true }) := by
  have hc : core (rcdDispose { s with outStopped := true }) = aDispose { core s with outStopped := true } := by
    rw [core_rcdDispose]; rfl
  refine inv_of_trk_same h (by unfold WF; rw [hc]; exact (wf_aDispose h.wf).1) ?_ ?_ ?_
  · rw [trk_rcdDispose]; rfl
  · exact (DE_of_groups_eq rfl : DE s { s with outStopped := true }).trans (DE_rcdDispose _)
  · intro hs; have := congrArg Core.srcStopped hc
    simp only [core_srcStopped] at this; rw [this]; exact aDispose_mono _ hs

theorem inv_writerNext {cfg : Cfg α κ β} {s : St κ β} (h : Inv cfg s) (g : Nat) (v : β) : Inv cfg (writerNext s g v) := by
  refine ⟨by unfold WF; rw [core_writerNext]; exact h.wf, ?_, DL_of_DE h.dl (DE_writerNext s g v), ?_⟩
  · unfold ES; rw [trk_writerNext]
    exact all_modify h.es (fun t ht => by rw [pushT_stopped, pushT_expired]; exact ht)
  · unfold LO; rw [trk_writerNext]
    have : (writerNext s g v).srcStopped = s.srcStopped := by
      have := congrArg Core.srcStopped (core_writerNext s g v); simpa using this
    rw [this]; intro hs
    exact all_modify (h.lo hs) (fun t ht => by rw [pushT_stopped, pushT_expired]; exact ht)

/-- `for wrt in writers.values(): wrt.on_xxx(..)` followed by the outer terminal: the operator is over -/
theorem inv_termOuter {cfg : Cfg α κ β} {s : St κ β} (hw : WF cfg s) (hes : ES s) (hdl : DL s) (n : Notif β) (n') :
    Inv cfg (outerTerm (termAll s n) n') ∧ (outerTerm (termAll s n) n').srcStopped = true := by
  have hc : core (outerTerm (termAll s n) n') = aErrorAll (core s) := by
    rw [core_outerTerm, core_termAll]; rfl
  have hst : (outerTerm (termAll s n) n').srcStopped = true := by
    have := congrArg Core.srcStopped hc
    simp only [core_srcStopped] at this; rw [this]
    exact aErrorAll_srcStopped hw (ESc_of_ES hes)
  refine ⟨⟨by unfold WF; rw [hc]; exact wf_aErrorAll hw, ?_, ?_, ?_⟩, hst⟩
  · unfold ES; rw [trk_outerTerm, trk_termAll]
    exact all_foldl_modify (fun t _ _ => termT_stopped n t) _ _ hes
  · exact DL_of_DE hdl ((DE_termAll s n).trans (DE_outerTerm _ _))
  · intro hs; rw [hst] at hs; cases hs

theorem inv_errorAll {cfg : Cfg α κ β} {s : St κ β} (hw : WF cfg s) (hes : ES s) (hdl : DL s) (e : Err) :
    Inv cfg (errorAll s e) ∧ (errorAll s e).srcStopped = true :=
  inv_termOuter (s := { s with failed := true }) hw hes hdl _ _

/-! ### expire / durFire -/
def expT (n : Notif β) (t : TG κ β) : TG κ β := termT n { t with expired := true }

theorem trk_expire (cfg : Cfg α κ β) (s : St κ β) (g : Nat) :
    trk (expire cfg s g) = trk s ∨ trk (expire cfg s g) = (trk s).modify g (expT .completed) := by
  unfold expire
  cases h : s.groups[g]? with
  | none => left; rfl
  | some r =>
    simp only
    cases hf : s.writers.find? (fun p => cfg.keyEq p.1 r.key) with
    | none => left; rfl
    | some p =>
      right
      simp only
      have e : trk (writerTerm (modGrp { s with writers := s.writers.eraseP (fun p => cfg.keyEq p.1 r.key) } g
          fun r => { r with expired := true }) g Notif.completed) = (trk s).modify g (expT .completed) := by
        rw [trk_writerTerm, trk_modGrp _ _ _ (fun t => { t with expired := true }) (fun _ => rfl)]
        rw [modify_modify_same]; rfl
      split
      · exact e
      · rw [trk_closeDur]; exact e

/-- like `DE`, but `expired` may change at index g -/
def DEx (g : Nat) (s s' : St κ β) : Prop :=
  ∀ (j : Nat) (r' : Grp κ β), s'.groups[j]? = some r' →
    ∃ r : Grp κ β, s.groups[j]? = some r ∧ (r'.dur = DurSt.live → r.dur = DurSt.live) ∧ (j ≠ g → r'.expired = r.expired)

theorem DEx_of_DE {g : Nat} {s s' : St κ β} (h : DE s s') : DEx g s s' := by
  intro j r' hr'; obtain ⟨r, h1, h2, h3⟩ := h j r' hr'; exact ⟨r, h1, h2, fun _ => h3⟩

theorem DEx.trans_DE {g : Nat} {s1 s2 s3 : St κ β} (h1 : DEx g s1 s2) (h2 : DE s2 s3) : DEx g s1 s3 := by
  intro j r3 h3
  obtain ⟨r2, hr2, hd2, he2⟩ := h2 j r3 h3
  obtain ⟨r1, hr1, hd1, he1⟩ := h1 j r2 hr2
  exact ⟨r1, hr1, fun h => hd1 (hd2 h), fun hj => he2.trans (he1 hj)⟩

theorem DEx_expire (cfg : Cfg α κ β) (s : St κ β) (g : Nat) : DEx g s (expire cfg s g) := by
  unfold expire
  split
  · split
    · exact DEx_of_DE (DE_emit _ _)
    · have h0 : DEx g s (modGrp { s with writers := s.writers.eraseP (fun p => cfg.keyEq p.1 (‹Grp κ β›).key) } g
          fun r => { r with expired := true }) := by
        intro j r' hr'
        simp only [modGrp_groups, List.getElem?_modify] at hr'
        cases h : s.groups[j]? with
        | none => simp [h] at hr'
        | some r =>
          refine ⟨r, rfl, ?_⟩
          by_cases hgj : g = j
          · simp only [h, hgj, if_true, Option.map_eq_map, Option.map_some, Option.some.injEq] at hr'; subst hr'
            exact ⟨id, fun hne => absurd hgj.symm hne⟩
          · simp only [h, hgj, if_false, Option.map_eq_map, Option.map_some, Option.some.injEq] at hr'; subst hr'
            exact ⟨id, fun _ => rfl⟩
      simp only
      split
      · exact h0.trans_DE (DE_writerTerm _ _ _)
      · exact (h0.trans_DE (DE_writerTerm _ _ _)).trans_DE (DE_closeDur _ _)
  · exact DEx_of_DE (DE.refl _)

theorem closeDur_not_live (s : St κ β) (g : Nat) (r : Grp κ β) (h : (closeDur s g).groups[g]? = some r) : r.dur ≠ .live := by
  unfold closeDur at h
  cases hg : s.groups[g]? with
  | none => simp [hg] at h
  | some r0 =>
    simp only [hg] at h
    by_cases hl : r0.dur = .live
    · simp only [hl, if_true, emit_groups, modGrp_groups, List.getElem?_modify, hg, Option.map_eq_map, Option.map_some,
        Option.some.injEq] at h
      subst h; simp
    · simp only [hl, if_false] at h; rw [hg] at h; cases h; exact hl

theorem inv_durFire_expire {cfg : Cfg α κ β} (hrefl : ∀ k, cfg.keyEq k k = true) {s : St κ β} (h : Inv cfg s) (g : Nat)
    (hne : ∀ r, s.groups[g]? = some r → r.expired = false) : Inv cfg (closeDur (expire cfg s g) g) := by
  have hc : core (closeDur (expire cfg s g) g) = aExpire cfg.keyEq (core s) g () := by
    rw [core_closeDur, core_expire]
  have hsrc : s.srcStopped = true → (closeDur (expire cfg s g) g).srcStopped = true := by
    intro hs; have := congrArg Core.srcStopped hc
    simp only [core_srcStopped] at this; rw [this]; exact aExpire_mono _ _ _ hs
  have ht : trk (closeDur (expire cfg s g) g) = trk s ∨ trk (closeDur (expire cfg s g) g) = (trk s).modify g (expT .completed) := by
    rw [trk_closeDur]; exact trk_expire cfg s g
  refine ⟨?_, ?_, ?_, ?_⟩
  · unfold WF; rw [hc]
    apply wf_aExpire hrefl h.wf
    intro r hr
    rw [core_getElem?] at hr
    cases hg : s.groups[g]? with
    | none => simp [hg] at hr
    | some r0 => simp only [hg, Option.map_some, Option.some.injEq] at hr; subst hr; exact hne r0 hg
  · unfold ES
    rcases ht with ht | ht <;> rw [ht]
    · exact h.es
    · exact all_modify h.es (fun t _ _ => termT_stopped _ _)
  · intro j r'' hr'' hl
    obtain ⟨r', hr', hd', he'⟩ := DE_closeDur (expire cfg s g) g j r'' hr''
    by_cases hjg : j = g
    · subst hjg; exact absurd hl (closeDur_not_live _ _ _ hr'')
    · obtain ⟨r, hr, hd, he⟩ := DEx_expire cfg s g j r' hr'
      rw [he', he hjg]; exact h.dl j r hr (hd (hd' hl))
  · intro hs
    have hs0 : s.srcStopped = false := by
      cases h' : s.srcStopped with
      | false => rfl
      | true => rw [hsrc h'] at hs; cases hs
    rcases ht with ht | ht <;> rw [ht]
    · exact h.lo hs0
    · exact all_modify (h.lo hs0) (fun t _ _ => by unfold expT; rw [termT_expired])

theorem inv_durFire {cfg : Cfg α κ β} (hrefl : ∀ k, cfg.keyEq k k = true) {s : St κ β} (h : Inv cfg s) (g : Nat)
    (hne : ∀ r, s.groups[g]? = some r → r.expired = false) (n : Notif Unit) : Inv cfg (durFire cfg s g n) := by
  cases n with
  | error e => exact inv_closeDur (inv_errorAll h.wf h.es h.dl e).1 g
  | next v => exact inv_durFire_expire hrefl h g hne
  | completed => exact inv_durFire_expire hrefl h g hne

theorem inv_durEvent {cfg : Cfg α κ β} (hrefl : ∀ k, cfg.keyEq k k = true) {s : St κ β} (h : Inv cfg s) (g : Nat)
    (n : Notif Unit) : Inv cfg (durEvent cfg s g n) := by
  unfold durEvent
  cases hg : s.groups[g]? with
  | none => exact h
  | some r =>
    simp only
    by_cases hl : r.dur = .live
    · simp only [hl, if_true]
      exact inv_durFire hrefl h g (fun r' hr' => by rw [hg] at hr'; cases hr'; exact h.dl g r hg hl) n
    · simpa [hl] using h

/-! ### announce / creation of a group / srcNext -/
variable {keyEq : κ → κ → Bool}

theorem wf_announced {c : Core κ} (h : WFc keyEq c) (g : Nat) : WFc keyEq (aMod c g fun r => { r with announced := true }) := by
  obtain ⟨hs, hu, ha, hr, hc, hl, ho, hd, hp, hn⟩ := h
  have hshape : liveW (c.gs.modify g fun r => { r with announced := true }) 0 = liveW c.gs 0 :=
    liveW_modify _ _ _ _ (fun _ => rfl) (fun _ => rfl)
  refine ⟨by simpa [aMod, hshape] using hs, hu, ?_, ?_, ?_, hl, ho, hd, hp,
    fun hd' => all_modify (P := fun x : CG κ => x.holdsRef = false) (hn hd') (fun a h => h)⟩
  · exact all_modify (P := fun x : CG κ => x.sub = SubSt.active → x.stopped = false) ha (fun a h => h)
  · exact all_modify (P := fun x : CG κ => x.holdsRef = true → x.sub = SubSt.active) hr (fun a h => h)
  · intro hd'
    have := hc hd'
    simp only [aMod] at this ⊢
    cases hg' : c.gs[g]? with
    | none => rw [modify_eq_of_none _ _ _ hg']; exact this
    | some r =>
      have := countP_modify_at c.gs g (fun r => { r with announced := true }) r hg'
      simp only at this; omega

theorem liveW_append (l : List (CG κ)) (x : CG κ) (i : Nat) :
    liveW (l ++ [x]) i = liveW l i ++ (if x.expired then [] else [(x.key, i + l.length)]) := by
  induction l generalizing i with
  | nil => simp [liveW]
  | cons a l ih =>
    simp only [List.cons_append, liveW, ih, List.length_cons]
    have e : i + 1 + l.length = i + (l.length + 1) := by omega
    split <;> simp [e]

theorem wf_append {c : Core κ} (h : WFc keyEq c) (k : κ) (hf : c.writers.find? (fun p => keyEq p.1 k) = none) :
    WFc keyEq { c with gs := c.gs ++ [⟨k, false, false, false, .none, false⟩], writers := c.writers ++ [(k, c.gs.length)] } := by
  obtain ⟨hs, hu, ha, hr, hc, hl, ho, hd, hp, hn⟩ := h
  refine ⟨?_, ?_, ?_, ?_, ?_, hl, ho, hd, hp, ?_⟩
  rotate_right
  · intro hd' x hx; rcases List.mem_append.mp hx with h | h
    · exact hn hd' x h
    · simp only [List.mem_singleton] at h; subst h; rfl
  · simp only [liveW_append, Bool.false_eq_true, if_false, Nat.zero_add]; rw [hs]
  · rw [List.pairwise_append]
    refine ⟨hu, by simp, ?_⟩
    intro a ha' b hb
    simp only [List.mem_singleton] at hb; subst hb
    have := List.find?_eq_none.mp hf a ha'
    simpa using this
  · intro x hx; rcases List.mem_append.mp hx with h | h
    · exact ha x h
    · simp only [List.mem_singleton] at h; subst h; intro h; cases h
  · intro x hx; rcases List.mem_append.mp hx with h | h
    · exact hr x h
    · simp only [List.mem_singleton] at h; subst h; intro h; cases h
  · intro hd'; have := hc hd'; simp only at this ⊢; simp [List.countP_append, this]

theorem expired_of_trk_eq {s s' : St κ β} (ht : trk s' = trk s) (g : Nat)
    (hne : ∀ r, s.groups[g]? = some r → r.expired = false) : ∀ r, s'.groups[g]? = some r → r.expired = false := by
  intro r' hr'
  have h1 : (trk s')[g]? = some (tg r') := by rw [trk_getElem?, hr']; rfl
  rw [ht, trk_getElem?] at h1
  cases hg : s.groups[g]? with
  | none => simp [hg] at h1
  | some r =>
    simp only [hg, Option.map_some, Option.some.injEq] at h1
    have := hne r hg
    have e : (tg r).expired = (tg r').expired := by rw [h1]
    simpa [tg, this] using e.symm

theorem inv_modGrp_same {cfg : Cfg α κ β} {s : St κ β} (h : Inv cfg s) (g : Nat) (f : Grp κ β → Grp κ β)
    (hw : WF cfg (modGrp s g f)) (ht : ∀ r, tg (f r) = tg r)
    (hd : ∀ r, ((f r).dur = .live → r.dur = .live) ∧ (f r).expired = r.expired) : Inv cfg (modGrp s g f) :=
  inv_of_trk_same h hw (trk_modGrp_same s g f ht) (DE_modGrp s g f hd) (fun hs => hs)

theorem inv_emit {cfg : Cfg α κ β} {s : St κ β} (h : Inv cfg s) (e) : Inv cfg (emit s e) :=
  inv_of_trk_same h h.wf rfl (DE_emit s e) (fun hs => hs)

theorem inv_announce {cfg : Cfg α κ β} (hrefl : ∀ k, cfg.keyEq k k = true) {s : St κ β} (h : Inv cfg s) (g : Nat) (k : κ)
    (hne : ∀ r, s.groups[g]? = some r → r.expired = false) : Inv cfg (announce cfg s g k) := by
  unfold announce
  -- (a) observer.on_next(group)
  have ha : Inv cfg (if s.outStopped then s else
      if cfg.imm g then subscribeGroup (emit (modGrp s g fun r => { r with announced := true }) (.outer (.next (g, k)))) g
      else emit (modGrp s g fun r => { r with announced := true }) (.outer (.next (g, k)))) ∧
      trk (if s.outStopped then s else
      if cfg.imm g then subscribeGroup (emit (modGrp s g fun r => { r with announced := true }) (.outer (.next (g, k)))) g
      else emit (modGrp s g fun r => { r with announced := true }) (.outer (.next (g, k)))) = trk s := by
    by_cases ho : s.outStopped
    · simp only [ho, if_true]; exact ⟨h, trivial⟩
    · simp only [ho, Bool.false_eq_true, if_false]
      have h1 : Inv cfg (emit (modGrp s g fun r => { r with announced := true }) (.outer (.next (g, k)))) := by
        apply inv_emit
        apply inv_modGrp_same h
        · unfold WF; rw [core_modGrp _ _ _ (fun r => { r with announced := true }) (fun _ => rfl)]
          exact wf_announced h.wf g
        · intro _; rfl
        · intro _; exact ⟨id, rfl⟩
      have t1 : trk (emit (modGrp s g fun r => { r with announced := true }) (.outer (.next (g, k)))) = trk s := by
        rw [trk_emit, trk_modGrp_same]; intro _; rfl
      by_cases hi : cfg.imm g
      · simp only [hi, if_true]; exact ⟨inv_subscribeGroup h1 g, by rw [trk_subscribeGroup, t1]⟩
      · simp only [hi, Bool.false_eq_true, if_false]; exact ⟨h1, t1⟩
  simp only
  generalize (if s.outStopped then s else
      if cfg.imm g then subscribeGroup (emit (modGrp s g fun r => { r with announced := true }) (.outer (.next (g, k)))) g
      else emit (modGrp s g fun r => { r with announced := true }) (.outer (.next (g, k)))) = s2 at ha
  obtain ⟨h2, t2⟩ := ha
  have hne2 := expired_of_trk_eq t2 g hne
  cases hd : cfg.dsync g with
  | some n => exact inv_durFire hrefl h2 g hne2 n
  | none =>
    simp only
    have h3 : Inv cfg (emit (modGrp s2 g fun r => { r with dur := .live }) (.subDur g)) := by
      apply inv_emit
      refine ⟨?_, ?_, ?_, ?_⟩
      · unfold WF; rw [core_modGrp_same]; exact h2.wf; intro _; rfl
      · unfold ES; rw [trk_modGrp_same]; exact h2.es; intro _; rfl
      · intro j r' hr' hl
        simp only [modGrp_groups, List.getElem?_modify] at hr'
        cases hj : s2.groups[j]? with
        | none => simp [hj] at hr'
        | some r =>
          by_cases hgj : g = j
          · simp only [hj, hgj, if_true, Option.map_eq_map, Option.map_some, Option.some.injEq] at hr'; subst hr'
            exact hne2 r (hgj ▸ hj)
          · simp only [hj, hgj, if_false, Option.map_eq_map, Option.map_some, Option.some.injEq] at hr'; subst hr'
            exact h2.dl j _ hj hl
      · unfold LO; rw [trk_modGrp_same]; exact h2.lo; intro _; rfl
    split
    · exact inv_closeDur h3 g
    · exact h3

theorem inv_pushElem {cfg : Cfg α κ β} {s : St κ β} (h : Inv cfg s) (g : Nat) (x : α) : Inv cfg (pushElem cfg s g x) := by
  unfold pushElem
  split
  · exact (inv_errorAll h.wf h.es h.dl _).1
  · exact inv_writerNext h g _

/-- the state right after `writers[key] = writer` for a new key -/
def addGroup (s : St κ β) (k : κ) : St κ β :=
  { s with groups := s.groups ++ [{ key := k }], writers := s.writers ++ [(k, s.groups.length)] }

theorem inv_addGroup {cfg : Cfg α κ β} {s : St κ β} (h : Inv cfg s) (k : κ)
    (hf : s.writers.find? (fun p => cfg.keyEq p.1 k) = none) : Inv cfg (addGroup s k) := by
  have ht : trk (addGroup s k) = trk s ++ [⟨k, false, false, []⟩] := by simp [trk, addGroup, tg]
  refine ⟨?_, ?_, ?_, ?_⟩
  · have := wf_append h.wf k hf
    unfold WF
    simpa [core, addGroup, cg] using this
  · unfold ES; rw [ht]; intro t ht'
    rcases List.mem_append.mp ht' with h' | h'
    · exact h.es t h'
    · simp only [List.mem_singleton] at h'; subst h'; intro h; cases h
  · intro j r hr hl
    simp only [addGroup] at hr
    by_cases hj : j < s.groups.length
    · rw [List.getElem?_append_left hj] at hr; exact h.dl j r hr hl
    · rw [List.getElem?_append_right (Nat.le_of_not_lt hj)] at hr
      cases hi : j - s.groups.length with
      | zero => simp [hi] at hr; subst hr; rfl
      | succ m => simp [hi] at hr
  · unfold LO; rw [ht]; intro hs t ht'
    rcases List.mem_append.mp ht' with h' | h'
    · exact h.lo hs t h'
    · simp only [List.mem_singleton] at h'; subst h'; intro h; cases h

theorem addGroup_fresh (s : St κ β) (k : κ) : ∀ r, (addGroup s k).groups[s.groups.length]? = some r → r.expired = false := by
  intro r hr; simp [addGroup] at hr; subst hr; rfl

theorem inv_srcNext {cfg : Cfg α κ β} (hrefl : ∀ k, cfg.keyEq k k = true) {s : St κ β} (h : Inv cfg s) (x : α) :
    Inv cfg (srcNext cfg s x) := by
  unfold srcNext
  split
  · exact (inv_errorAll h.wf h.es h.dl _).1
  · rename_i k _
    split
    · exact inv_pushElem h _ x
    · rename_i hf
      simp only
      split
      · exact (inv_errorAll h.wf h.es h.dl _).1
      · have h1 : Inv cfg (addGroup s k) := inv_addGroup h k hf
        split
        · exact (inv_errorAll h1.wf h1.es h1.dl _).1
        · exact inv_pushElem (inv_announce hrefl h1 _ k (addGroup_fresh s k)) _ x

theorem inv_srcStop {cfg : Cfg α κ β} {s : St κ β} (h : Inv cfg s) : Inv cfg { s with srcStopped := true, srcDone := true } :=
  ⟨wf_aGd h.wf, h.es, h.dl, fun hs => by cases hs⟩

theorem inv_step {cfg : Cfg α κ β} (hrefl : ∀ k, cfg.keyEq k k = true) {s : St κ β} (h : Inv cfg s) (e : Ev α) :
    Inv cfg (step cfg s e) := by
  cases e with
  | src n =>
    cases n with
    | next x =>
      simp only [step]; split
      · exact h
      · exact inv_srcNext hrefl h x
    | error e =>
      simp only [step]; split
      · exact h
      · have h0 := inv_srcStop h
        exact inv_closeSrc (inv_errorAll h0.wf h0.es h0.dl e).1
    | completed =>
      simp only [step]; split
      · exact h
      · have h0 := inv_srcStop h
        exact inv_closeSrc (inv_termOuter h0.wf h0.es h0.dl _ _).1
  | dur g n => exact inv_durEvent hrefl h g n
  | disposeOuter => exact inv_disposeOuter h
  | subGroup g => exact inv_subscribeLate h g
  | disposeGroup g =>
    simp only [step]
    split
    · split
      · exact inv_subEnd h g
      · exact h
    · exact h

theorem inv_init (cfg : Cfg α κ β) : Inv cfg (init : St κ β) := by
  refine ⟨⟨rfl, List.Pairwise.nil, ?_, ?_, ?_, ?_, ?_, ?_, ?_, ?_⟩, ?_, ?_, ?_⟩ <;> simp [init, core, trk, ES, DL, LO]

theorem inv_run {cfg : Cfg α κ β} (hrefl : ∀ k, cfg.keyEq k k = true) {s : St κ β} (h : Inv cfg s) (evs : List (Ev α)) :
    Inv cfg (run cfg s evs) := by
  induction evs generalizing s with
  | nil => exact h
  | cons e es ih => exact ih (inv_step hrefl h e)

theorem inv_reach {cfg : Cfg α κ β} (hrefl : ∀ k, cfg.keyEq k k = true) (evs : List (Ev α)) :
    Inv cfg (run cfg (init : St κ β) evs) := inv_run hrefl (inv_init cfg) evs
/-! ### lemmas for the property theorems -/
theorem length_trk (s : St κ β) : (trk s).length = s.groups.length := by simp [trk]

theorem length_foldl_modify {A} (f : A → A) (idx : List Nat) (l : List A) :
    (idx.foldl (fun t g => t.modify g f) l).length = l.length := by
  induction idx generalizing l with
  | nil => rfl
  | cons i idx ih => simp [List.foldl, ih]

theorem len_errorAll (s : St κ β) (e : Err) : (errorAll s e).groups.length = s.groups.length := by
  rw [← length_trk, trk_errorAll, length_foldl_modify, length_trk]
theorem len_writerNext (s : St κ β) (g : Nat) (v : β) : (writerNext s g v).groups.length = s.groups.length := by
  rw [← length_trk, trk_writerNext, List.length_modify, length_trk]
theorem len_pushElem (cfg : Cfg α κ β) (s : St κ β) (g : Nat) (x : α) : (pushElem cfg s g x).groups.length = s.groups.length := by
  unfold pushElem; split
  · exact len_errorAll _ _
  · exact len_writerNext _ _ _
theorem len_closeDur (s : St κ β) (g : Nat) : (closeDur s g).groups.length = s.groups.length := by
  rw [← length_trk, trk_closeDur, length_trk]
theorem len_expire (cfg : Cfg α κ β) (s : St κ β) (g : Nat) : (expire cfg s g).groups.length = s.groups.length := by
  rw [← length_trk]
  rcases trk_expire cfg s g with h | h <;> rw [h]
  · exact length_trk s
  · rw [List.length_modify, length_trk]
theorem len_durFire (cfg : Cfg α κ β) (s : St κ β) (g : Nat) (n : Notif Unit) : (durFire cfg s g n).groups.length = s.groups.length := by
  cases n <;> simp only [durFire, len_closeDur, len_expire, len_errorAll]
theorem len_subscribeGroup (s : St κ β) (g : Nat) : (subscribeGroup s g).groups.length = s.groups.length := by
  rw [← length_trk, trk_subscribeGroup, length_trk]

theorem len_announce (cfg : Cfg α κ β) (s : St κ β) (g : Nat) (k : κ) : (announce cfg s g k).groups.length = s.groups.length := by
  unfold announce
  have ha : (if s.outStopped then s else
      if cfg.imm g then subscribeGroup (emit (modGrp s g fun r => { r with announced := true }) (.outer (.next (g, k)))) g
      else emit (modGrp s g fun r => { r with announced := true }) (.outer (.next (g, k)))).groups.length = s.groups.length := by
    split
    · rfl
    · split
      · rw [len_subscribeGroup]; simp
      · simp
  generalize (if s.outStopped then s else
      if cfg.imm g then subscribeGroup (emit (modGrp s g fun r => { r with announced := true }) (.outer (.next (g, k)))) g
      else emit (modGrp s g fun r => { r with announced := true }) (.outer (.next (g, k)))) = s2 at ha
  split
  · rw [len_durFire]; exact ha
  · simp only; split
    · rw [len_closeDur]; simpa using ha
    · simpa using ha

/-- with a duration that does not fire synchronously, announcing a group leaves every writer alone -/
theorem trk_announce_nosync (cfg : Cfg α κ β) (s : St κ β) (g : Nat) (k : κ) (hd : cfg.dsync g = none) :
    trk (announce cfg s g k) = trk s := by
  unfold announce
  have ha : trk (if s.outStopped then s else
      if cfg.imm g then subscribeGroup (emit (modGrp s g fun r => { r with announced := true }) (.outer (.next (g, k)))) g
      else emit (modGrp s g fun r => { r with announced := true }) (.outer (.next (g, k)))) = trk s := by
    have t1 : trk (emit (modGrp s g fun r => { r with announced := true }) (.outer (.next (g, k)))) = trk s := by
      rw [trk_emit, trk_modGrp_same]; intro _; rfl
    split
    · rfl
    · split
      · rw [trk_subscribeGroup, t1]
      · exact t1
  simp only [hd]
  generalize (if s.outStopped then s else
      if cfg.imm g then subscribeGroup (emit (modGrp s g fun r => { r with announced := true }) (.outer (.next (g, k)))) g
      else emit (modGrp s g fun r => { r with announced := true }) (.outer (.next (g, k)))) = s2 at ha
  have t3 : trk (emit (modGrp s2 g fun r => { r with dur := .live }) (.subDur g)) = trk s2 := by
    rw [trk_emit, trk_modGrp_same]; intro _; rfl
  split
  · rw [trk_closeDur, t3, ha]
  · rw [t3, ha]

/-- membership in `liveW` -/
theorem mem_liveW_iff (l : List (CG κ)) (i : Nat) (p : κ × Nat) :
    p ∈ liveW l i ↔ ∃ j r, l[j]? = some r ∧ r.expired = false ∧ p = (r.key, i + j) := by
  induction l generalizing i with
  | nil => simp [liveW]
  | cons a l ih =>
    unfold liveW
    constructor
    · intro h
      by_cases ha : a.expired
      · simp only [ha, if_true] at h
        obtain ⟨j, r, hj, he, hp⟩ := (ih (i + 1)).mp h
        exact ⟨j + 1, r, by simpa using hj, he, by rw [hp]; congr 1; omega⟩
      · simp only [ha, Bool.false_eq_true, if_false, List.mem_cons] at h
        rcases h with h | h
        · exact ⟨0, a, by simp, by simpa using ha, by simpa using h⟩
        · obtain ⟨j, r, hj, he, hp⟩ := (ih (i + 1)).mp h
          exact ⟨j + 1, r, by simpa using hj, he, by rw [hp]; congr 1; omega⟩
    · rintro ⟨j, r, hj, he, hp⟩
      cases j with
      | zero =>
        simp only [List.getElem?_cons_zero, Option.some.injEq] at hj; subst hj
        simp [he, hp]
      | succ j =>
        simp only [List.getElem?_cons_succ] at hj
        have : p ∈ liveW l (i + 1) := (ih (i + 1)).mpr ⟨j, r, hj, he, by rw [hp]; congr 1; omega⟩
        split
        · exact this
        · exact List.mem_cons_of_mem _ this

/-- a live group for key k in state s: created, same key (Python `==`), not expired -/
def LiveFor (cfg : Cfg α κ β) (s : St κ β) (k : κ) (j : Nat) : Prop :=
  ∃ r, s.groups[j]? = some r ∧ cfg.keyEq r.key k = true ∧ r.expired = false

theorem mem_writers_iff {cfg : Cfg α κ β} {s : St κ β} (h : WF cfg s) (p : κ × Nat) :
    p ∈ s.writers ↔ ∃ r, s.groups[p.2]? = some r ∧ r.expired = false ∧ p.1 = r.key := by
  have hs : s.writers = liveW (s.groups.map cg) 0 := h.shape
  rw [hs, mem_liveW_iff]
  constructor
  · rintro ⟨j, r, hj, he, hp⟩
    simp only [List.getElem?_map] at hj
    cases hg : s.groups[j]? with
    | none => simp [hg] at hj
    | some r0 =>
      simp only [hg, Option.map_some, Option.some.injEq] at hj; subst hj
      subst hp; exact ⟨r0, by simpa using hg, he, rfl⟩
  · rintro ⟨r, hr, he, hk⟩
    exact ⟨p.2, cg r, by simp [hr], he, by rw [Prod.ext_iff]; simp [hk, cg]⟩

theorem find_none_iff {cfg : Cfg α κ β} {s : St κ β} (h : WF cfg s) (k : κ) :
    s.writers.find? (fun p => cfg.keyEq p.1 k) = none ↔ ¬ ∃ j, LiveFor cfg s k j := by
  rw [List.find?_eq_none]
  constructor
  · rintro hn ⟨j, r, hr, hk, he⟩
    have := hn (r.key, j) ((mem_writers_iff h _).mpr ⟨r, hr, he, rfl⟩)
    simp [hk] at this
  · intro hn p hp hk
    obtain ⟨r, hr, he, hpk⟩ := (mem_writers_iff h p).mp hp
    exact hn ⟨p.2, r, hr, by rw [← hpk]; simpa using hk, he⟩

theorem find_some_live {cfg : Cfg α κ β} {s : St κ β} (h : WF cfg s) (k : κ) (p : κ × Nat)
    (hf : s.writers.find? (fun p => cfg.keyEq p.1 k) = some p) : LiveFor cfg s k p.2 := by
  have hm := List.mem_of_find?_eq_some hf
  have hk := List.find?_some hf
  obtain ⟨r, hr, he, hpk⟩ := (mem_writers_iff h p).mp hm
  exact ⟨r, hr, by rw [← hpk]; simpa using hk, he⟩

theorem pairwise_mem {A} {R : A → A → Prop} {l : List A} {a b : A} (h : l.Pairwise R) (ha : a ∈ l) (hb : b ∈ l) :
    a = b ∨ R a b ∨ R b a := by
  induction l with
  | nil => cases ha
  | cons x l ih =>
    rw [List.pairwise_cons] at h
    rcases List.mem_cons.mp ha with rfl | ha' <;> rcases List.mem_cons.mp hb with rfl | hb'
    · exact Or.inl rfl
    · exact Or.inr (Or.inl (h.1 _ hb'))
    · exact Or.inr (Or.inr (h.1 _ ha'))
    · exact ih h.2 ha' hb'

/-- at most one live group per key -/
theorem live_unique {cfg : Cfg α κ β} (hsymm : ∀ a b, cfg.keyEq a b = true → cfg.keyEq b a = true)
    (htrans : ∀ a b c, cfg.keyEq a b = true → cfg.keyEq b c = true → cfg.keyEq a c = true)
    {s : St κ β} (h : WF cfg s) (k : κ) (i j : Nat) (hi : LiveFor cfg s k i) (hj : LiveFor cfg s k j) : i = j := by
  obtain ⟨ri, hri, hki, hei⟩ := hi
  obtain ⟨rj, hrj, hkj, hej⟩ := hj
  have hmi : (ri.key, i) ∈ s.writers := (mem_writers_iff h _).mpr ⟨ri, hri, hei, rfl⟩
  have hmj : (rj.key, j) ∈ s.writers := (mem_writers_iff h _).mpr ⟨rj, hrj, hej, rfl⟩
  have hu := h.uniq
  simp only [core_writers] at hu
  have hij : cfg.keyEq ri.key rj.key = true := htrans _ _ _ hki (hsymm _ _ hkj)
  have hji : cfg.keyEq rj.key ri.key = true := hsymm _ _ hij
  rcases pairwise_mem hu hmi hmj with e | e | e
  · injection e
  · simp only at e; rw [hij] at e; cases e
  · simp only at e; rw [hji] at e; cases e

/-! keys of the groups never change -/
def keys (s : St κ β) : List κ := (trk s).map (·.key)

theorem keys_modify (l : List (TG κ β)) (g : Nat) (f : TG κ β → TG κ β) (hf : ∀ t, (f t).key = t.key) :
    (l.modify g f).map (·.key) = l.map (·.key) := map_modify_same _ f l g hf

theorem keys_foldl_modify (f : TG κ β → TG κ β) (hf : ∀ t, (f t).key = t.key) (idx : List Nat) (l : List (TG κ β)) :
    (idx.foldl (fun t g => t.modify g f) l).map (·.key) = l.map (·.key) := by
  induction idx generalizing l with
  | nil => rfl
  | cons i idx ih => simp only [List.foldl]; rw [ih, keys_modify _ _ _ hf]

theorem keys_errorAll (s : St κ β) (e : Err) : keys (errorAll s e) = keys s := by
  unfold keys; rw [trk_errorAll, keys_foldl_modify _ (termT_key _)]
theorem keys_writerNext (s : St κ β) (g : Nat) (v : β) : keys (writerNext s g v) = keys s := by
  unfold keys; rw [trk_writerNext, keys_modify _ _ _ (pushT_key _)]
theorem keys_pushElem (cfg : Cfg α κ β) (s : St κ β) (g : Nat) (x : α) : keys (pushElem cfg s g x) = keys s := by
  unfold pushElem; split
  · exact keys_errorAll _ _
  · exact keys_writerNext _ _ _
theorem expT_key (n : Notif β) (t : TG κ β) : (expT n t).key = t.key := by unfold expT; rw [termT_key]
theorem keys_durFire (cfg : Cfg α κ β) (s : St κ β) (g : Nat) (n : Notif Unit) : keys (durFire cfg s g n) = keys s := by
  have he : keys (closeDur (expire cfg s g) g) = keys s := by
    unfold keys; rw [trk_closeDur]
    rcases trk_expire cfg s g with h | h <;> rw [h]
    rw [keys_modify _ _ _ (expT_key _)]
  cases n with
  | error e => simp only [durFire]; unfold keys; rw [trk_closeDur]; exact keys_errorAll s e
  | next v => exact he
  | completed => exact he

theorem keys_announce (cfg : Cfg α κ β) (s : St κ β) (g : Nat) (k : κ) : keys (announce cfg s g k) = keys s := by
  unfold announce
  have ha : keys (if s.outStopped then s else
      if cfg.imm g then subscribeGroup (emit (modGrp s g fun r => { r with announced := true }) (.outer (.next (g, k)))) g
      else emit (modGrp s g fun r => { r with announced := true }) (.outer (.next (g, k)))) = keys s := by
    have t1 : trk (emit (modGrp s g fun r => { r with announced := true }) (.outer (.next (g, k)))) = trk s := by
      rw [trk_emit, trk_modGrp_same]; intro _; rfl
    unfold keys
    split
    · rfl
    · split
      · rw [trk_subscribeGroup, t1]
      · rw [t1]
  generalize (if s.outStopped then s else
      if cfg.imm g then subscribeGroup (emit (modGrp s g fun r => { r with announced := true }) (.outer (.next (g, k)))) g
      else emit (modGrp s g fun r => { r with announced := true }) (.outer (.next (g, k)))) = s2 at ha
  have t3 : trk (emit (modGrp s2 g fun r => { r with dur := .live }) (.subDur g)) = trk s2 := by
    rw [trk_emit, trk_modGrp_same]; intro _; rfl
  split
  · rw [keys_durFire]; exact ha
  · simp only; split
    · unfold keys at ha ⊢; rw [trk_closeDur, t3, ha]
    · unfold keys at ha ⊢; rw [t3, ha]

theorem keys_addGroup (s : St κ β) (k : κ) : keys (addGroup s k) = keys s ++ [k] := by
  simp [keys, trk, addGroup, tg]

theorem length_keys (s : St κ β) : (keys s).length = s.groups.length := by simp [keys, trk]

theorem keys_getElem? (s : St κ β) (j : Nat) : (keys s)[j]? = (s.groups[j]?).map (·.key) := by
  simp only [keys, trk, List.getElem?_map, Option.map_map]; rfl

/-! pointwise form of `termAll` on the tracked part -/
theorem termT_idem (n : Notif β) (t : TG κ β) : termT n (termT n t) = termT n t := by
  unfold termT; by_cases h : t.stopped <;> simp [h]

theorem foldl_modify_get {A} (f : A → A) (hf : ∀ a, f (f a) = f a) (idx : List Nat) (l : List A) (j : Nat) :
    (idx.foldl (fun t g => t.modify g f) l)[j]? = (l[j]?).map (fun a => if j ∈ idx then f a else a) := by
  induction idx generalizing l with
  | nil => simp
  | cons i idx ih =>
    simp only [List.foldl]
    rw [ih, List.getElem?_modify]
    cases h : l[j]? with
    | none => simp
    | some a =>
      simp only [Option.map_some, Option.map_eq_map, Option.some.injEq, List.mem_cons]
      by_cases hij : i = j
      · subst hij; simp [hf]
      · have : ¬ j = i := fun e => hij e.symm
        simp [hij, this]

/-! effects after the outer terminal are only unsubscriptions -/
def Eff.isUnsub : Eff κ β → Bool
  | .unsubSrc => true
  | .unsubDur _ => true
  | _ => false

def OutU (s s' : St κ β) : Prop := ∃ l, s'.out = s.out ++ l ∧ ∀ e ∈ l, Eff.isUnsub e = true
theorem OutU.refl (s : St κ β) : OutU s s := ⟨[], by simp, by simp⟩
theorem OutU.trans {a b c : St κ β} (h1 : OutU a b) (h2 : OutU b c) : OutU a c := by
  obtain ⟨l1, e1, u1⟩ := h1; obtain ⟨l2, e2, u2⟩ := h2
  exact ⟨l1 ++ l2, by rw [e2, e1, List.append_assoc], fun e he => by
    rcases List.mem_append.mp he with h | h
    · exact u1 e h
    · exact u2 e h⟩
theorem OutU_of_out_eq {s s' : St κ β} (h : s'.out = s.out) : OutU s s' := ⟨[], by simp [h], by simp⟩

theorem OutU_closeDur (s : St κ β) (g : Nat) : OutU s (closeDur s g) := by
  unfold closeDur; split
  · split
    · exact ⟨[.unsubDur g], by simp, by simp [Eff.isUnsub]⟩
    · exact OutU.refl _
  · exact OutU.refl _
theorem OutU_closeSrc (s : St κ β) : OutU s (closeSrc s) := by
  unfold closeSrc; split
  · exact ⟨[.unsubSrc], by simp, by simp [Eff.isUnsub]⟩
  · exact OutU.refl _
theorem OutU_foldl_closeDur (s : St κ β) (l : List Nat) : OutU s (l.foldl closeDur s) := by
  induction l generalizing s with
  | nil => exact OutU.refl _
  | cons a l ih => exact (OutU_closeDur s a).trans (ih _)
theorem OutU_gdDispose (s : St κ β) : OutU s (gdDispose s) := by
  unfold gdDispose
  exact ((OutU_of_out_eq rfl : OutU s { s with srcStopped := true }).trans (OutU_closeSrc _)).trans (OutU_foldl_closeDur _ _)
theorem OutU_rcdDispose (s : St κ β) : OutU s (rcdDispose s) := by
  unfold rcdDispose; split
  · exact OutU.refl _
  · split
    · simp only; split
      · exact (OutU_of_out_eq rfl : OutU s { s with primary := true, rcdDisposed := true }).trans (OutU_gdDispose _)
      · exact OutU_of_out_eq rfl
    · exact OutU.refl _
/-! ### every step acts on the tracked part by a sequence of four elementary operations -/
inductive TEv : List (TG κ β) → List (TG κ β) → Prop
  | refl (l) : TEv l l
  | push (l g) (v : β) : TEv l (l.modify g (pushT (.next v)))
  | term (l g) (n : Notif β) (hn : n.isTerminal = true) : TEv l (l.modify g (termT n))
  | exp (l g) : TEv l (l.modify g (expT .completed))
  | add (l) (k : κ) : TEv l (l ++ [⟨k, false, false, []⟩])
  | trans {a b c} : TEv a b → TEv b c → TEv a c

theorem tev_foldl_term (n : Notif β) (hn : n.isTerminal = true) (idx : List Nat) (l : List (TG κ β)) :
    TEv l (idx.foldl (fun t g => t.modify g (termT n)) l) := by
  induction idx generalizing l with
  | nil => exact TEv.refl _
  | cons i idx ih => exact TEv.trans (TEv.term l i n hn) (ih _)

theorem tev_errorAll (s : St κ β) (e : Err) : TEv (trk s) (trk (errorAll s e)) := by
  rw [trk_errorAll]; exact tev_foldl_term _ rfl _ _

theorem tev_pushElem (cfg : Cfg α κ β) (s : St κ β) (g : Nat) (x : α) : TEv (trk s) (trk (pushElem cfg s g x)) := by
  unfold pushElem; split
  · exact tev_errorAll _ _
  · rw [trk_writerNext]; exact TEv.push _ _ _

theorem tev_durFire (cfg : Cfg α κ β) (s : St κ β) (g : Nat) (n : Notif Unit) : TEv (trk s) (trk (durFire cfg s g n)) := by
  have he : TEv (trk s) (trk (closeDur (expire cfg s g) g)) := by
    rw [trk_closeDur]
    rcases trk_expire cfg s g with h | h <;> rw [h]
    · exact TEv.refl _
    · exact TEv.exp _ _
  cases n with
  | error e => simp only [durFire]; rw [trk_closeDur]; exact tev_errorAll s e
  | next v => exact he
  | completed => exact he

theorem tev_announce (cfg : Cfg α κ β) (s : St κ β) (g : Nat) (k : κ) : TEv (trk s) (trk (announce cfg s g k)) := by
  unfold announce
  have ha : trk (if s.outStopped then s else
      if cfg.imm g then subscribeGroup (emit (modGrp s g fun r => { r with announced := true }) (.outer (.next (g, k)))) g
      else emit (modGrp s g fun r => { r with announced := true }) (.outer (.next (g, k)))) = trk s := by
    have t1 : trk (emit (modGrp s g fun r => { r with announced := true }) (.outer (.next (g, k)))) = trk s := by
      rw [trk_emit, trk_modGrp_same]; intro _; rfl
    split
    · rfl
    · split
      · rw [trk_subscribeGroup, t1]
      · exact t1
  generalize (if s.outStopped then s else
      if cfg.imm g then subscribeGroup (emit (modGrp s g fun r => { r with announced := true }) (.outer (.next (g, k)))) g
      else emit (modGrp s g fun r => { r with announced := true }) (.outer (.next (g, k)))) = s2 at ha
  have t3 : trk (emit (modGrp s2 g fun r => { r with dur := .live }) (.subDur g)) = trk s2 := by
    rw [trk_emit, trk_modGrp_same]; intro _; rfl
  rw [← ha]
  split
  · exact tev_durFire _ _ _ _
  · simp only; split
    · rw [trk_closeDur, t3]; exact TEv.refl _
    · rw [t3]; exact TEv.refl _

theorem tev_srcNext (cfg : Cfg α κ β) (s : St κ β) (x : α) : TEv (trk s) (trk (srcNext cfg s x)) := by
  unfold srcNext
  split
  · exact tev_errorAll _ _
  · rename_i k _
    split
    · exact tev_pushElem _ _ _ _
    · simp only
      split
      · exact tev_errorAll _ _
      · have h1 : TEv (trk s) (trk (addGroup s k)) := by
          have : trk (addGroup s k) = trk s ++ [⟨k, false, false, []⟩] := by simp [trk, addGroup, tg]
          rw [this]; exact TEv.add _ _
        split
        · exact TEv.trans h1 (tev_errorAll (addGroup s k) _)
        · exact TEv.trans h1 (TEv.trans (tev_announce cfg (addGroup s k) _ k) (tev_pushElem _ _ _ _))

theorem tev_step (cfg : Cfg α κ β) (s : St κ β) (e : Ev α) : TEv (trk s) (trk (step cfg s e)) := by
  cases e with
  | src n =>
    cases n with
    | next x => simp only [step]; split; exact TEv.refl _; exact tev_srcNext _ _ _
    | error e =>
      simp only [step]; split
      · exact TEv.refl _
      · rw [trk_closeSrc]; exact tev_errorAll { s with srcStopped := true, srcDone := true } e
    | completed =>
      simp only [step]; split
      · exact TEv.refl _
      · rw [trk_closeSrc, trk_outerTerm, trk_termAll]; exact tev_foldl_term _ rfl _ _
  | dur g n =>
    simp only [step, durEvent]
    split
    · split
      · exact tev_durFire _ _ _ _
      · exact TEv.refl _
    · exact TEv.refl _
  | disposeOuter => simp only [step]; rw [trk_rcdDispose]; exact TEv.refl _
  | subGroup g => simp only [step]; rw [trk_subscribeLate]; exact TEv.refl _
  | disposeGroup g =>
    simp only [step]
    split
    · split
      · rw [trk_subEnd]; exact TEv.refl _
      · exact TEv.refl _
    · exact TEv.refl _

theorem tev_run (cfg : Cfg α κ β) (s : St κ β) (evs : List (Ev α)) : TEv (trk s) (trk (run cfg s evs)) := by
  induction evs generalizing s with
  | nil => exact TEv.refl _
  | cons e es ih => exact TEv.trans (tev_step cfg s e) (ih _)

/-- a pointwise property of the tracked entries that the four elementary operations preserve holds after any run -/
theorem tev_pointwise {P : TG κ β → Prop}
    (hpush : ∀ t (v : β), P t → P (pushT (.next v) t))
    (hterm : ∀ t (n : Notif β), n.isTerminal = true → P t → P (termT n t))
    (hexp : ∀ t, P t → P (expT .completed t))
    (hadd : ∀ k, P ⟨k, false, false, []⟩)
    {a b : List (TG κ β)} (h : TEv a b) (ha : ∀ t ∈ a, P t) : ∀ t ∈ b, P t := by
  induction h with
  | refl l => exact ha
  | push l g v => exact all_modify ha (fun t ht => hpush t v ht)
  | term l g n hn => exact all_modify ha (fun t ht => hterm t n hn ht)
  | exp l g => exact all_modify ha (fun t ht => hexp t ht)
  | add l k =>
    intro t ht
    rcases List.mem_append.mp ht with h | h
    · exact ha t h
    · simp only [List.mem_singleton] at h; subst h; exact hadd k
  | trans _ _ ih1 ih2 => exact ih2 (ih1 ha)

/-- pointwise *relation* between an entry before and after: index-wise evolution -/
theorem tev_rel {R : TG κ β → TG κ β → Prop} (hrefl : ∀ t, R t t) (htrans : ∀ a b c, R a b → R b c → R a c)
    (hpush : ∀ t (v : β), R t (pushT (.next v) t))
    (hterm : ∀ t (n : Notif β), n.isTerminal = true → R t (termT n t))
    (hexp : ∀ t, R t (expT .completed t))
    {a b : List (TG κ β)} (h : TEv a b) : ∀ (j : Nat) (t : TG κ β), a[j]? = some t → ∃ t', b[j]? = some t' ∧ R t t' := by
  induction h with
  | refl l => intro j t ht; exact ⟨t, ht, hrefl t⟩
  | push l g v =>
    intro j t ht; rw [List.getElem?_modify, ht]
    by_cases h : g = j <;> simp [h, hpush, hrefl]
  | term l g n hn =>
    intro j t ht; rw [List.getElem?_modify, ht]
    by_cases h : g = j <;> simp [h, hterm _ _ hn, hrefl]
  | exp l g =>
    intro j t ht; rw [List.getElem?_modify, ht]
    by_cases h : g = j <;> simp [h, hexp, hrefl]
  | add l k =>
    intro j t ht
    have hj : j < l.length := by
      rcases Nat.lt_or_ge j l.length with h | h
      · exact h
      · rw [List.getElem?_eq_none h] at ht; cases ht
    exact ⟨t, by rw [List.getElem?_append_left hj]; exact ht, hrefl t⟩
  | trans _ _ ih1 ih2 =>
    intro j t ht
    obtain ⟨t1, h1, r1⟩ := ih1 j t ht
    obtain ⟨t2, h2, r2⟩ := ih2 j t1 h1
    exact ⟨t2, h2, htrans _ _ _ r1 r2⟩
end WinGrp

/-! ## partition -/
namespace WinGrp.Part
variable {α : Type}

/-- both outputs subscribed (first to output 1, then to output 2), connected, nothing terminated -/
def S2 (i0 i1 : Nat) (a b : List (Notif α)) (o : List (Eff α)) : St α :=
  { slots := [⟨false, .active, i0, a⟩, ⟨true, .active, i1, b⟩], observers := [0, 1], subjStopped := false,
    subjExc := none, count := 2, hasSub := true, connSome := true, connDisposed := false, connLive := true,
    connOpen := true, out := o }

theorem run_subscribe_both (indexed : Bool) (pred : α → Nat → Except Err Bool) :
    run indexed pred { slots := [⟨false, .none, 0, []⟩, ⟨true, .none, 0, []⟩] } [.sub 0, .sub 1] = S2 0 0 [] [] [.subSrc] := by
  simp [run, step, subscribe, S2, modSlot, emit, List.modify]

/-- what the element `v` contributes to an output (`second = false`: first output) at index `i` -/
def pick (p : α → Nat → Bool) (second : Bool) (v : α) (i : Nat) : List (Notif α) :=
  if (if second then !p v i else p v i) then [.next v] else []

theorem step_next (indexed : Bool) (p : α → Nat → Bool) (i0 i1 : Nat) (a b : List (Notif α)) (o) (v : α) :
    ∃ o', step indexed (fun v i => .ok (p v i)) (S2 i0 i1 a b o) (.src (.next v)) =
      S2 (if indexed then i0 + 1 else i0) (if indexed then i1 + 1 else i1) (a ++ pick p false v i0) (b ++ pick p true v i1) o' := by
  cases indexed <;> by_cases h0 : p v i0 <;> by_cases h1 : p v i1 <;>
    simp [step, S2, filterNext, modSlot, emit, List.modify, pick, h0, h1]

/-- elements selected for an output from `xs`, the per-subscription index starting at `i` -/
def sel (indexed : Bool) (p : α → Nat → Bool) (second : Bool) : List α → Nat → List (Notif α)
  | [], _ => []
  | v :: vs, i => pick p second v i ++ sel indexed p second vs (if indexed then i + 1 else i)

def idxAfter (indexed : Bool) (i n : Nat) : Nat := if indexed then i + n else i

theorem run_elements (indexed : Bool) (p : α → Nat → Bool) (xs : List α) (i0 i1 : Nat) (a b : List (Notif α)) (o) :
    ∃ o', run indexed (fun v i => .ok (p v i)) (S2 i0 i1 a b o) (xs.map fun v => .src (.next v)) =
      S2 (idxAfter indexed i0 xs.length) (idxAfter indexed i1 xs.length)
        (a ++ sel indexed p false xs i0) (b ++ sel indexed p true xs i1) o' := by
  induction xs generalizing i0 i1 a b o with
  | nil => exact ⟨o, by simp [run, sel, idxAfter]⟩
  | cons v vs ih =>
    obtain ⟨o1, h1⟩ := step_next indexed p i0 i1 a b o v
    obtain ⟨o2, h2⟩ := ih (if indexed then i0 + 1 else i0) (if indexed then i1 + 1 else i1)
      (a ++ pick p false v i0) (b ++ pick p true v i1) o1
    refine ⟨o2, ?_⟩
    simp only [List.map_cons, run, h1, h2, sel, List.append_assoc, List.length_cons]
    cases indexed <;> simp [idxAfter, Nat.add_assoc, Nat.add_comm 1]

theorem step_term (indexed : Bool) (pred : α → Nat → Except Err Bool) (i0 i1 : Nat) (a b : List (Notif α)) (o) (n : Notif α)
    (hn : n.isTerminal = true) :
    (step indexed pred (S2 i0 i1 a b o) (.src n)).slots.map (fun r => (r.st, r.seen)) = [(.ended, a ++ [n]), (.ended, b ++ [n])] ∧
    (step indexed pred (S2 i0 i1 a b o) (.src n)).connOpen = false := by
  cases n with
  | next v => cases hn
  | error e => simp [step, S2, deliverTerm, slotEnd, refDispose, connDispose, modSlot, emit, List.modify, excOf]
  | completed => simp [step, S2, deliverTerm, slotEnd, refDispose, connDispose, modSlot, emit, List.modify, excOf]

theorem sel_filter (p : α → Nat → Bool) (second : Bool) (xs : List α) (i : Nat) :
    sel false p second xs i = (xs.filter fun v => if second then !p v i else p v i).map .next := by
  induction xs with
  | nil => rfl
  | cons v vs ih =>
    simp only [sel, pick, Bool.false_eq_true, if_false, ih, List.filter_cons]
    cases second <;> cases h : p v i <;> simp [h]

theorem sel_indexed (p : α → Nat → Bool) (second : Bool) (xs : List α) (i : Nat) :
    sel true p second xs i = (((xs.zipIdx i).filter fun q => if second then !p q.1 q.2 else p q.1 q.2).map (·.1)).map .next := by
  induction xs generalizing i with
  | nil => rfl
  | cons v vs ih =>
    simp only [sel, pick, if_true, ih, List.zipIdx_cons, List.filter_cons]
    cases second <;> cases h : p v i <;> simp [h]
end WinGrp.Part

namespace WinGrp
variable {α κ β : Type}

/-! ### the effect log only grows -/
def OutExt (s s' : St κ β) : Prop := ∃ l, s'.out = s.out ++ l
theorem OutExt.refl (s : St κ β) : OutExt s s := ⟨[], by simp⟩
theorem OutExt.trans {a b c : St κ β} (h1 : OutExt a b) (h2 : OutExt b c) : OutExt a c := by
  obtain ⟨l1, e1⟩ := h1; obtain ⟨l2, e2⟩ := h2; exact ⟨l1 ++ l2, by rw [e2, e1, List.append_assoc]⟩
theorem OutExt_of_eq {s s' : St κ β} (h : s'.out = s.out) : OutExt s s' := ⟨[], by simp [h]⟩
theorem OutExt_emit (s : St κ β) (e) : OutExt s (emit s e) := ⟨[e], rfl⟩
theorem OutExt.mem {s s' : St κ β} (h : OutExt s s') {e} (he : e ∈ s.out) : e ∈ s'.out := by
  obtain ⟨l, hl⟩ := h; rw [hl]; exact List.mem_append_left _ he

macro "oe_peel" : tactic => `(tactic| first
  | exact OutExt.refl _
  | exact OutExt_of_eq rfl
  | refine OutExt.trans ?_ (OutExt_emit _ _))

theorem OutExt_of_OutU {s s' : St κ β} (h : OutU s s') : OutExt s s' := by
  obtain ⟨l, hl, _⟩ := h; exact ⟨l, hl⟩

theorem OutExt_closeDur (s : St κ β) (g : Nat) : OutExt s (closeDur s g) := OutExt_of_OutU (OutU_closeDur s g)
theorem OutExt_gdDispose (s : St κ β) : OutExt s (gdDispose s) := OutExt_of_OutU (OutU_gdDispose s)
theorem OutExt_rcdDispose (s : St κ β) : OutExt s (rcdDispose s) := OutExt_of_OutU (OutU_rcdDispose s)

theorem OutExt_rcdRelease (s : St κ β) : OutExt s (rcdRelease s) := by
  unfold rcdRelease; split
  · exact OutExt.refl _
  · simp only; split
    · refine OutExt.trans ?_ (OutExt_gdDispose _); exact OutExt_of_eq rfl
    · exact OutExt_of_eq rfl

theorem OutExt_subEnd (s : St κ β) (g : Nat) : OutExt s (subEnd s g) := by
  unfold subEnd; split
  · simp only; split
    · refine OutExt.trans ?_ (OutExt_rcdRelease _); exact OutExt_of_eq rfl
    · exact OutExt_of_eq rfl
  · exact OutExt.refl _

theorem OutExt_writerNext (s : St κ β) (g : Nat) (v : β) : OutExt s (writerNext s g v) := by
  unfold writerNext; split
  · split
    · exact OutExt.refl _
    · simp only; split
      · refine OutExt.trans ?_ (OutExt_emit _ _)
        refine OutExt.trans (b := emit (modGrp s g _) _) ?_ (OutExt_of_eq rfl)
        refine OutExt.trans ?_ (OutExt_emit _ _); exact OutExt_of_eq rfl
      · refine OutExt.trans ?_ (OutExt_emit _ _); exact OutExt_of_eq rfl
  · exact OutExt.refl _

theorem OutExt_writerTerm (s : St κ β) (g : Nat) (n : Notif β) : OutExt s (writerTerm s g n) := by
  unfold writerTerm; split
  · split
    · exact OutExt.refl _
    · simp only; split
      · refine OutExt.trans ?_ (OutExt_subEnd _ _)
        refine OutExt.trans ?_ (OutExt_emit _ _)
        refine OutExt.trans (b := emit (modGrp s g _) _) ?_ (OutExt_of_eq rfl)
        refine OutExt.trans ?_ (OutExt_emit _ _); exact OutExt_of_eq rfl
      · refine OutExt.trans ?_ (OutExt_emit _ _); exact OutExt_of_eq rfl
  · exact OutExt.refl _

theorem OutExt_foldl_writerTerm (s : St κ β) (l : List Nat) (n : Notif β) :
    OutExt s (l.foldl (fun s g => writerTerm s g n) s) := by
  induction l generalizing s with
  | nil => exact OutExt.refl _
  | cons a l ih => exact (OutExt_writerTerm s a n).trans (ih _)

theorem OutExt_termAll (s : St κ β) (n : Notif β) : OutExt s (termAll s n) := OutExt_foldl_writerTerm _ _ _

theorem OutExt_outerTerm (s : St κ β) (n) : OutExt s (outerTerm s n) := by
  unfold outerTerm; split
  · exact OutExt.refl _
  · refine OutExt.trans ?_ (OutExt_rcdDispose _)
    refine OutExt.trans ?_ (OutExt_emit _ _); exact OutExt_of_eq rfl

theorem OutExt_errorAll (s : St κ β) (e : Err) : OutExt s (errorAll s e) :=
  ((OutExt_of_eq rfl : OutExt s { s with failed := true }).trans (OutExt_termAll _ _)).trans (OutExt_outerTerm _ _)

theorem OutExt_subscribeGroup (s : St κ β) (g : Nat) : OutExt s (subscribeGroup s g) := by
  unfold subscribeGroup; split
  · split
    · exact OutExt.refl _
    · simp only; split
      · exact OutExt_of_eq rfl
      · refine OutExt.trans ?_ (OutExt_subEnd _ _)
        refine OutExt.trans ?_ (OutExt_emit _ _); exact OutExt_of_eq rfl
  · exact OutExt.refl _

theorem OutExt_expire (cfg : Cfg α κ β) (s : St κ β) (g : Nat) : OutExt s (expire cfg s g) := by
  unfold expire; split
  · split
    · exact OutExt_emit _ _
    · simp only; split
      · refine OutExt.trans ?_ (OutExt_writerTerm _ _ _); exact OutExt_of_eq rfl
      · refine OutExt.trans ?_ (OutExt_closeDur _ _)
        refine OutExt.trans ?_ (OutExt_writerTerm _ _ _); exact OutExt_of_eq rfl
  · exact OutExt.refl _

theorem OutExt_durFire (cfg : Cfg α κ β) (s : St κ β) (g : Nat) (n : Notif Unit) : OutExt s (durFire cfg s g n) := by
  cases n with
  | error e => exact (OutExt_errorAll s e).trans (OutExt_closeDur _ _)
  | next v => exact (OutExt_expire cfg s g).trans (OutExt_closeDur _ _)
  | completed => exact (OutExt_expire cfg s g).trans (OutExt_closeDur _ _)

theorem OutExt_pushElem (cfg : Cfg α κ β) (s : St κ β) (g : Nat) (x : α) : OutExt s (pushElem cfg s g x) := by
  unfold pushElem; split
  · exact OutExt_errorAll _ _
  · exact OutExt_writerNext _ _ _

/-- the announcement of a new group is in the effect log after `announce` (outer subscriber not stopped) -/
theorem announce_mem (cfg : Cfg α κ β) (s : St κ β) (g : Nat) (k : κ) (ho : s.outStopped = false) :
    Eff.outer (.next (g, k)) ∈ (announce cfg s g k).out := by
  unfold announce
  simp only [ho, Bool.false_eq_true, if_false]
  have h1 : Eff.outer (.next (g, k)) ∈ (if cfg.imm g = true then
      subscribeGroup (emit (modGrp s g fun r => { r with announced := true }) (Eff.outer (Notif.next (g, k)))) g
      else emit (modGrp s g fun r => { r with announced := true }) (Eff.outer (Notif.next (g, k)))).out := by
    split
    · exact (OutExt_subscribeGroup _ g).mem (by simp)
    · simp
  generalize (if cfg.imm g = true then
      subscribeGroup (emit (modGrp s g fun r => { r with announced := true }) (Eff.outer (Notif.next (g, k)))) g
      else emit (modGrp s g fun r => { r with announced := true }) (Eff.outer (Notif.next (g, k)))) = s2 at h1
  split
  · exact (OutExt_durFire cfg s2 g _).mem h1
  · split
    · exact (OutExt_closeDur _ g).mem (by simp [h1])
    · simp [h1]
end WinGrp

/-! ## helper definitions and lemmas used directly by the C19 theorems -/
namespace WinGrp
variable {α κ β : Type}

/-- the writer log of group j (`[]` if the group does not exist) -/
def wlogOf (s : St κ β) (j : Nat) : List (Notif β) := ((s.groups[j]?).map (·.wlog)).getD []

theorem wlogOf_trk (s : St κ β) (j : Nat) : wlogOf s j = (((trk s)[j]?).map (·.wlog)).getD [] := by
  simp only [wlogOf, trk_getElem?, Option.map_map]; rfl

theorem liveFor_trk (cfg : Cfg α κ β) (s : St κ β) (k : κ) (j : Nat) :
    LiveFor cfg s k j ↔ ∃ t, (trk s)[j]? = some t ∧ cfg.keyEq t.key k = true ∧ t.expired = false := by
  simp only [LiveFor, trk_getElem?]
  constructor
  · rintro ⟨r, hr, hk, he⟩; exact ⟨tg r, by simp [hr], hk, he⟩
  · rintro ⟨t, ht, hk, he⟩
    cases hg : s.groups[j]? with
    | none => simp [hg] at ht
    | some r => simp only [hg, Option.map_some, Option.some.injEq] at ht; subst ht; exact ⟨r, rfl, hk, he⟩

theorem step_src_next (cfg : Cfg α κ β) (s : St κ β) (x : α) (hs : s.srcStopped = false) :
    step cfg s (.src (.next x)) = srcNext cfg s x := by simp [step, hs]

/-- the four ways `on_next(x)` can go once the key is known -/
theorem srcNext_cases (cfg : Cfg α κ β) (s : St κ β) (x : α) (k : κ) (hk : cfg.keyMapper x = .ok k) :
    (∃ p, s.writers.find? (fun p => cfg.keyEq p.1 k) = some p ∧ srcNext cfg s x = pushElem cfg s p.2 x) ∨
    (s.writers.find? (fun p => cfg.keyEq p.1 k) = none ∧
      ((∃ e, cfg.subjMapper s.groups.length = .error e ∧ srcNext cfg s x = errorAll s e) ∨
       (cfg.subjMapper s.groups.length = .ok () ∧
         ((∃ e, cfg.durMapper s.groups.length = .error e ∧ srcNext cfg s x = errorAll (addGroup s k) e) ∨
          (cfg.durMapper s.groups.length = .ok () ∧
            srcNext cfg s x = pushElem cfg (announce cfg (addGroup s k) s.groups.length k) s.groups.length x))))) := by
  unfold srcNext
  simp only [hk]
  cases hf : s.writers.find? (fun p => cfg.keyEq p.1 k) with
  | some p => left; exact ⟨p, rfl, rfl⟩
  | none =>
    right; refine ⟨rfl, ?_⟩
    simp only
    cases hsm : cfg.subjMapper s.groups.length with
    | error e => left; exact ⟨e, rfl, rfl⟩
    | ok u =>
      right; refine ⟨rfl, ?_⟩
      simp only
      cases hdm : cfg.durMapper s.groups.length with
      | error e => left; exact ⟨e, rfl, rfl⟩
      | ok u' => right; exact ⟨rfl, rfl⟩

theorem aRelease_out (c : Core κ) : (aRelease c).outStopped = c.outStopped := by
  unfold aRelease aGd; split
  · rfl
  · split <;> rfl

theorem aSubEnd_out (c : Core κ) (g : Nat) : (aSubEnd c g).outStopped = c.outStopped := by
  unfold aSubEnd; split
  · simp only; split
    · rw [aRelease_out]; rfl
    · rfl
  · rfl

theorem aWTerm_out (c : Core κ) (g : Nat) : (aWTerm c g).outStopped = c.outStopped := by
  unfold aWTerm; split
  · split
    · rfl
    · simp only; split
      · rw [aSubEnd_out]; rfl
      · rfl
  · rfl

theorem foldl_aWTerm_out (c : Core κ) (l : List Nat) : (l.foldl aWTerm c).outStopped = c.outStopped := by
  induction l generalizing c with
  | nil => rfl
  | cons a l ih => simp only [List.foldl]; rw [ih, aWTerm_out]

theorem termAll_outStopped (s : St κ β) (n : Notif β) : (termAll s n).outStopped = s.outStopped := by
  have := congrArg Core.outStopped (core_termAll s n)
  simp only [core_outStopped] at this; rw [this]; exact foldl_aWTerm_out _ _

/-- what the source's terminal does, for a state satisfying the invariant -/
theorem term_common (cfg : Cfg α κ β) (s : St κ β) (hi : Inv cfg s) (n : Notif β) (n'' : Notif (Nat × κ)) (d f : Bool) :
    let s' := closeSrc (outerTerm (termAll { s with srcStopped := true, srcDone := d, failed := f } n) n'')
    trk s' = (trk s).map (termT n) ∧
    (s.outStopped = false → ∃ pre post, s'.out = pre ++ Eff.outer n'' :: post ∧ ∀ e ∈ post, Eff.isUnsub e = true) := by
  intro s'
  constructor
  · have h1 : trk s' = (s.writers.map (·.2)).foldl (fun t g => t.modify g (termT n)) (trk s) := by
      show trk (closeSrc _) = _
      rw [trk_closeSrc, trk_outerTerm, trk_termAll]; rfl
    rw [h1]
    apply List.ext_getElem?
    intro j
    rw [foldl_modify_get _ (termT_idem n), List.getElem?_map]
    cases ht : (trk s)[j]? with
    | none => rfl
    | some t =>
      simp only [Option.map_some, Option.some.injEq]
      by_cases hj : j ∈ s.writers.map (·.2)
      · simp [hj]
      · simp only [hj, if_false]
        -- j is not in `writers`: the group is expired, hence already stopped
        rw [trk_getElem?] at ht
        cases hg : s.groups[j]? with
        | none => simp [hg] at ht
        | some r =>
          simp only [hg, Option.map_some, Option.some.injEq] at ht; subst ht
          have hexp : r.expired = true := by
            cases he : r.expired with
            | true => rfl
            | false =>
              exfalso; apply hj
              exact List.mem_map.mpr ⟨(r.key, j), (mem_writers_iff hi.wf _).mpr ⟨r, hg, he, rfl⟩, rfl⟩
          have hst : (tg r).stopped = true := hi.es (tg r) (List.mem_map.mpr ⟨r, mem_of_getElem? hg, rfl⟩) hexp
          simp [termT, hst]
  · intro ho
    have hto : (termAll { s with srcStopped := true, srcDone := d, failed := f } n).outStopped = false := by rw [termAll_outStopped]; exact ho
    obtain ⟨l1, e1, u1⟩ := OutU_rcdDispose (emit { termAll { s with srcStopped := true, srcDone := d, failed := f } n with outStopped := true } (.outer n''))
    obtain ⟨l2, e2, u2⟩ := OutU_closeSrc (outerTerm (termAll { s with srcStopped := true, srcDone := d, failed := f } n) n'')
    refine ⟨(termAll { s with srcStopped := true, srcDone := d, failed := f } n).out, l1 ++ l2, ?_, ?_⟩
    · show (closeSrc _).out = _
      rw [e2]
      have : (outerTerm (termAll { s with srcStopped := true, srcDone := d, failed := f } n) n'').out =
          (termAll { s with srcStopped := true, srcDone := d, failed := f } n).out ++ [Eff.outer n''] ++ l1 := by
        unfold outerTerm; rw [if_neg (by simp [hto])]; rw [e1]; rfl
      rw [this]; simp
    · intro e he
      rcases List.mem_append.mp he with h | h
      · exact u1 e h
      · exact u2 e h

theorem grammar_of_nonterminal {γ} (l : List (Notif γ)) (n : Notif γ) (h : ∀ m ∈ l, m.isTerminal = false) :
    Grammar (l ++ [n]) := by
  induction l with
  | nil => simp [Grammar]
  | cons a l ih =>
    have ha := h a (by simp)
    have := ih (fun m hm => h m (by simp [hm]))
    cases l with
    | nil => simpa [Grammar] using ha
    | cons b l => exact ⟨ha, this⟩

theorem grammar_of_nonterminal' {γ} (l : List (Notif γ)) (h : ∀ m ∈ l, m.isTerminal = false) : Grammar l := by
  induction l with
  | nil => simp [Grammar]
  | cons a l ih =>
    cases l with
    | nil => simp [Grammar]
    | cons b l => exact ⟨h a (by simp), ih (fun m hm => h m (by simp [hm]))⟩

/-- open writer: only elements so far; stopped writer: elements then exactly one terminal, which is last -/
abbrev LogOK (t : TG κ β) : Prop :=
  (t.stopped = false → ∀ n ∈ t.wlog, n.isTerminal = false) ∧
  (t.stopped = true → ∃ pre n, t.wlog = pre ++ [n] ∧ n.isTerminal = true ∧ ∀ m ∈ pre, m.isTerminal = false)

theorem logOK_term (t : TG κ β) (n : Notif β) (hn : n.isTerminal = true) (h : LogOK t) : LogOK (termT n t) := by
  unfold termT
  by_cases hs : t.stopped
  · simpa [hs] using h
  · simp only [hs, Bool.false_eq_true, if_false]
    exact ⟨fun h' => (by cases h'), fun _ => ⟨t.wlog, n, rfl, hn, h.1 (by simpa using hs)⟩⟩

/-- how a tracked entry may evolve -/
abbrev Evolves (t t' : TG κ β) : Prop :=
  t'.key = t.key ∧ (∃ suf, t'.wlog = t.wlog ++ suf) ∧ (t.stopped = true → t'.stopped = true ∧ t'.wlog = t.wlog) ∧
  (t.expired = true → t'.expired = true)

theorem trk_expire_found (cfg : Cfg α κ β) (s : St κ β) (g : Nat) (r : Grp κ β) (hg : s.groups[g]? = some r)
    (hf : (s.writers.find? (fun p => cfg.keyEq p.1 r.key)).isSome = true) :
    trk (expire cfg s g) = (trk s).modify g (expT .completed) := by
  unfold expire
  simp only [hg]
  cases hf' : s.writers.find? (fun p => cfg.keyEq p.1 r.key) with
  | none => rw [hf'] at hf; cases hf
  | some p =>
    simp only
    have e : trk (writerTerm (modGrp { s with writers := s.writers.eraseP (fun p => cfg.keyEq p.1 r.key) } g
        fun r => { r with expired := true }) g Notif.completed) = (trk s).modify g (expT .completed) := by
      rw [trk_writerTerm, trk_modGrp _ _ _ (fun t => { t with expired := true }) (fun _ => rfl)]
      rw [modify_modify_same]; rfl
    split
    · exact e
    · rw [trk_closeDur]; exact e

theorem part_run_append (indexed : Bool) (pred : α → Nat → Except Err Bool) (s : Part.St α) (a b : List (Part.Ev α)) :
    Part.run indexed pred s (a ++ b) = Part.run indexed pred (Part.run indexed pred s a) b := by
  induction a generalizing s with
  | nil => rfl
  | cons e es ih => simp [Part.run, ih]

/-- the two outputs of `partition`, both subscribed before the source emits -/
def partInit : Part.St α := { slots := [⟨false, .none, 0, []⟩, ⟨true, .none, 0, []⟩] }

theorem partition_core (indexed : Bool) (p : α → Nat → Bool) (xs : List α) (n : Notif α) (hn : n.isTerminal = true) :
    (Part.run indexed (fun v i => .ok (p v i)) partInit
        ([.sub 0, .sub 1] ++ xs.map (fun v => .src (.next v)) ++ [.src n])).slots.map (fun r => (r.st, r.seen)) =
      [(.ended, Part.sel indexed p false xs 0 ++ [n]), (.ended, Part.sel indexed p true xs 0 ++ [n])] := by
  rw [part_run_append, part_run_append]
  have h1 := Part.run_subscribe_both indexed (fun v i => Except.ok (p v i))
  unfold partInit
  rw [h1]
  obtain ⟨o', h2⟩ := Part.run_elements indexed p xs 0 0 [] [] [.subSrc]
  rw [h2]
  simp only [Part.run, List.nil_append]
  exact (Part.step_term indexed _ _ _ _ _ _ n hn).1

end WinGrp

/-! ## durations derived from the group (`stepD`) -/
namespace WinGrp
variable {α κ β : Type}

/-! ### `stepD` (durations that may be derived from the group) coincides with `step` when no duration is -/
section noDerived
variable {cfg : Cfg α κ β} (hnod : ∀ g, cfg.dgrp g = none)
include hnod

theorem writerNextD_eq (s : St κ β) (g : Nat) (v : β) : writerNextD cfg s g v = writerNext s g v := by
  unfold writerNextD writerNext
  cases s.groups[g]? with
  | none => rfl
  | some r => by_cases hs : r.stopped <;> simp [hnod g, hs]

theorem writerTermWith_eq (errAll : St κ β → Err → St κ β) (s : St κ β) (g : Nat) (n : Notif β) :
    writerTermWith cfg errAll s g n = writerTerm s g n := by
  unfold writerTermWith writerTerm
  cases s.groups[g]? with
  | none => rfl
  | some r => by_cases hs : r.stopped <;> simp [hnod g, hs]

theorem errorAllD_eq (fuel : Nat) (s : St κ β) (e : Err) : errorAllD cfg fuel { s with failed := true } e = errorAll s e := by
  cases fuel with
  | zero => rfl
  | succ f =>
    simp only [errorAllD, errorAll, termAll]
    congr 1
    congr 1
    funext s g
    exact writerTermWith_eq hnod _ s g _

theorem errAllD_eq (s : St κ β) (e : Err) : errAllD cfg s e = errorAll s e := errorAllD_eq hnod _ s e

theorem completeAllD_eq (s : St κ β) : completeAllD cfg s = termAll s .completed := by
  simp only [completeAllD, termAll]
  congr 1
  funext s g
  exact writerTermWith_eq hnod _ s g _

theorem durFireD_eq (s : St κ β) (g : Nat) (n : Notif Unit) : durFireD cfg s g n = durFire cfg s g n := by
  cases n <;> simp [durFireD, durFire, errAllD_eq hnod]

theorem durEventD_eq (s : St κ β) (g : Nat) (n : Notif Unit) : durEventD cfg s g n = durEvent cfg s g n := by
  unfold durEventD durEvent
  cases s.groups[g]? with
  | none => rfl
  | some r => simp [hnod g, durFireD_eq hnod]

theorem pushElemD_eq (s : St κ β) (g : Nat) (x : α) : pushElemD cfg s g x = pushElem cfg s g x := by
  unfold pushElemD pushElem
  cases cfg.elemMapper x <;> simp [errAllD_eq hnod, writerNextD_eq hnod]

theorem announceD_eq (s : St κ β) (g : Nat) (k : κ) : announceD cfg s g k = announce cfg s g k := by
  unfold announceD announce
  simp only [hnod g]
  cases cfg.dsync g <;> simp [durFireD_eq hnod]

theorem srcNextD_eq (s : St κ β) (x : α) : srcNextD cfg s x = srcNext cfg s x := by
  unfold srcNextD srcNext
  cases cfg.keyMapper x with
  | error e => simp [errAllD_eq hnod]
  | ok k =>
    simp only
    cases s.writers.find? (fun p => cfg.keyEq p.1 k) with
    | some p => simp [pushElemD_eq hnod]
    | none =>
      simp only
      cases cfg.subjMapper s.groups.length with
      | error e => simp [errAllD_eq hnod]
      | ok u =>
        simp only
        cases cfg.durMapper s.groups.length with
        | error e => simp [errAllD_eq hnod]
        | ok u' => simp [pushElemD_eq hnod, announceD_eq hnod]

theorem stepD_eq_step (s : St κ β) (e : Ev α) : stepD cfg s e = step cfg s e := by
  cases e with
  | src n =>
    cases n <;> simp [stepD, step, srcNextD_eq hnod, errAllD_eq hnod, completeAllD_eq hnod]
  | dur g n => simp [stepD, step, durEventD_eq hnod]
  | disposeOuter => rfl
  | subGroup g => rfl
  | disposeGroup g => rfl

theorem runD_eq_run (s : St κ β) (evs : List (Ev α)) : runD cfg s evs = run cfg s evs := by
  induction evs generalizing s with
  | nil => rfl
  | cons e es ih => simp [runD, run, stepD_eq_step hnod, ih]
end noDerived

/-! ### order of effects when a group is created; group-derived durations -/
theorem OutU_rcdRelease (s : St κ β) : OutU s (rcdRelease s) := by
  unfold rcdRelease; split
  · exact OutU.refl _
  · simp only; split
    · exact (OutU_of_out_eq rfl : OutU s { s with count := s.count - 1, rcdDisposed := true }).trans (OutU_gdDispose _)
    · exact OutU_of_out_eq rfl

theorem OutU_subEnd (s : St κ β) (g : Nat) : OutU s (subEnd s g) := by
  unfold subEnd; split
  · simp only; split
    · exact (OutU_of_out_eq rfl : OutU s (modGrp s g _)).trans (OutU_rcdRelease _)
    · exact OutU_of_out_eq rfl
  · exact OutU.refl _

theorem modGrp_get (s : St κ β) (g : Nat) (f : Grp κ β → Grp κ β) :
    (modGrp s g f).groups[g]? = (s.groups[g]?).map f := by
  simp [modGrp, List.getElem?_modify]

theorem addGroup_get (s : St κ β) (k : κ) : (addGroup s k).groups[s.groups.length]? = some { key := k } := by
  simp [addGroup]

/-- subscribing to an announced, open group without subscriber -/
theorem subscribeGroup_open (s : St κ β) (g : Nat) (r : Grp κ β) (hg : s.groups[g]? = some r) (h1 : r.sub = .none)
    (h2 : r.announced = true) (h3 : r.stopped = false) :
    subscribeGroup s g = modGrp { s with count := if (!s.rcdDisposed) = true then s.count + 1 else s.count } g
      (fun r => { r with sub := .active, holdsRef := !s.rcdDisposed }) := by
  unfold subscribeGroup
  simp [hg, h1, h2, h3]

/-- the step that creates group `g` for element `x` (key `k`, mapped value `v`), as a composition -/
theorem stepD_new_group (cfg : Cfg α κ β) (s : St κ β) (x : α) (k : κ) (v : β)
    (hs : s.srcStopped = false) (hk : cfg.keyMapper x = .ok k)
    (hf : s.writers.find? (fun p => cfg.keyEq p.1 k) = none)
    (hsm : cfg.subjMapper s.groups.length = .ok ()) (hdm : cfg.durMapper s.groups.length = .ok ())
    (hv : cfg.elemMapper x = .ok v) :
    stepD cfg s (.src (.next x)) = writerNextD cfg (announceD cfg (addGroup s k) s.groups.length k) s.groups.length v := by
  show (if s.srcStopped = true then s else srcNextD cfg s x) = _
  rw [if_neg (by simp [hs])]
  unfold srcNextD
  simp only [hk, hf, hsm, hdm]
  unfold pushElemD
  simp only [hv]
  rfl

/-- the state after `observer.on_next(group)` for the fresh group g (outer subscriber live, RefCountDisposable live) -/
def announced1 (cfg : Cfg α κ β) (s : St κ β) (k : κ) : St κ β :=
  let g := s.groups.length
  let t := emit (modGrp (addGroup s k) g fun r => { r with announced := true }) (.outer (.next (g, k)))
  if cfg.imm g then subscribeGroup t g else t

theorem announced1_facts (cfg : Cfg α κ β) (s : St κ β) (k : κ) (hd : s.rcdDisposed = false) :
    (announced1 cfg s k).out = s.out ++ [.outer (.next (s.groups.length, k))] ∧ (announced1 cfg s k).rcdDisposed = false ∧
    (announced1 cfg s k).writers = s.writers ++ [(k, s.groups.length)] ∧
    (announced1 cfg s k).groups[s.groups.length]? =
      some { key := k, announced := true, sub := (if cfg.imm s.groups.length then SubSt.active else SubSt.none),
             holdsRef := cfg.imm s.groups.length } := by
  have hg1 : (emit (modGrp (addGroup s k) s.groups.length fun r => { r with announced := true })
      (.outer (.next (s.groups.length, k)))).groups[s.groups.length]? = some { key := k, announced := true } := by
    have := modGrp_get (addGroup s k) s.groups.length (fun r => { r with announced := true })
    rw [addGroup_get] at this
    exact this
  by_cases hi : cfg.imm s.groups.length = true
  · have e := subscribeGroup_open _ _ _ hg1 rfl rfl rfl
    unfold announced1
    simp only [hi, if_true]
    rw [e]
    refine ⟨rfl, hd, rfl, ?_⟩
    rw [modGrp_get]
    show Option.map _ ((emit (modGrp (addGroup s k) s.groups.length fun r => { r with announced := true })
      (.outer (.next (s.groups.length, k)))).groups[s.groups.length]?) = _
    rw [hg1]
    simp [hi, hd, addGroup]
  · unfold announced1
    simp only [hi, Bool.false_eq_true, if_false]
    refine ⟨rfl, hd, rfl, ?_⟩
    rw [hg1]

/-- `announceD` for the fresh group, as `announced1` followed by the duration subscription -/
theorem announceD_fresh (cfg : Cfg α κ β) (s : St κ β) (k : κ) (ho : s.outStopped = false) (hd : s.rcdDisposed = false)
    (hdur : (cfg.dgrp s.groups.length).isSome = true ∨ cfg.dsync s.groups.length = none) :
    announceD cfg (addGroup s k) s.groups.length k =
      emit (modGrp (announced1 cfg s k) s.groups.length fun r =>
        { r with dur := .live, dcnt := (cfg.dgrp s.groups.length).getD r.dcnt }) (.subDur s.groups.length) := by
  have hd2 := (announced1_facts cfg s k hd).2.1
  have ho' : (addGroup s k).outStopped = false := ho
  unfold announceD
  simp only [ho', Bool.false_eq_true, if_false]
  have e1 : (if cfg.imm s.groups.length = true then
      subscribeGroup (emit (modGrp (addGroup s k) s.groups.length fun r => { r with announced := true })
        (Eff.outer (Notif.next (s.groups.length, k)))) s.groups.length
      else emit (modGrp (addGroup s k) s.groups.length fun r => { r with announced := true })
        (Eff.outer (Notif.next (s.groups.length, k)))) = announced1 cfg s k := rfl
  rw [e1]
  cases hdg : cfg.dgrp s.groups.length with
  | some n => simp [hd2]
  | none =>
    have hds : cfg.dsync s.groups.length = none := by
      rcases hdur with h | h
      · rw [hdg] at h; cases h
      · exact h
    simp [hds, hd2]

/-- **group_announced_before_duration_before_element** (effects of the step that creates a group, in order):
the outer subscriber is handed the group, then the duration is subscribed, then the element is pushed to the writer
(and reaches the subscriber attached inside the outer `on_next`).  Holds for every state (not only reachable ones)
in which the source and the outer subscriber are live and the RefCountDisposable is not disposed. -/
theorem group_announced_before_duration_before_element (cfg : Cfg α κ β) (s : St κ β) (x : α) (k : κ) (v : β)
    (hs : s.srcStopped = false) (ho : s.outStopped = false) (hd : s.rcdDisposed = false)
    (hk : cfg.keyMapper x = .ok k) (hf : s.writers.find? (fun p => cfg.keyEq p.1 k) = none)
    (hsm : cfg.subjMapper s.groups.length = .ok ()) (hdm : cfg.durMapper s.groups.length = .ok ())
    (hv : cfg.elemMapper x = .ok v)
    (hdur : (cfg.dgrp s.groups.length).isSome = true ∨ cfg.dsync s.groups.length = none) :
    ∃ rest, (stepD cfg s (.src (.next x))).out =
      s.out ++ (.outer (.next (s.groups.length, k)) :: .subDur s.groups.length :: .tap s.groups.length (.next v) ::
        (if cfg.imm s.groups.length then [.grp s.groups.length (.next v)] else []) ++ rest) := by
  rw [stepD_new_group cfg s x k v hs hk hf hsm hdm hv, announceD_fresh cfg s k ho hd hdur]
  obtain ⟨hout, hd2, hw2, hg2⟩ := announced1_facts cfg s k hd
  generalize announced1 cfg s k = s2 at hout hd2 hw2 hg2
  have hg3 := modGrp_get s2 s.groups.length (fun r => { r with dur := DurSt.live, dcnt := (cfg.dgrp s.groups.length).getD r.dcnt })
  rw [hg2] at hg3
  simp only [Option.map_some] at hg3
  have hout3 : (emit (modGrp s2 s.groups.length fun r => { r with dur := DurSt.live, dcnt := (cfg.dgrp s.groups.length).getD r.dcnt })
      (Eff.subDur s.groups.length)).out = s.out ++ [.outer (.next (s.groups.length, k)), .subDur s.groups.length] := by
    simp [hout]
  have hg4 : (emit (modGrp s2 s.groups.length fun r => { r with dur := DurSt.live, dcnt := (cfg.dgrp s.groups.length).getD r.dcnt })
      (Eff.subDur s.groups.length)).groups[s.groups.length]? = _ := hg3
  generalize (emit (modGrp s2 s.groups.length fun r => { r with dur := DurSt.live, dcnt := (cfg.dgrp s.groups.length).getD r.dcnt })
      (Eff.subDur s.groups.length)) = t at hout3 hg4
  unfold writerNextD
  rw [hg4]
  simp only [Bool.false_eq_true, if_false]
  by_cases hi : cfg.imm s.groups.length = true
  · cases hdg : cfg.dgrp s.groups.length with
    | none =>
      refine ⟨[], ?_⟩
      simp [hdg, writerNext, hg4, hi, hout3]
    | some n =>
      cases n with
      | zero =>
        obtain ⟨l, hl⟩ := OutExt_durFire cfg (emit (modGrp (emit (modGrp t s.groups.length fun r => { r with wlog := r.wlog ++ [Notif.next v] })
          (Eff.tap s.groups.length (Notif.next v))) s.groups.length fun r => { r with seen := r.seen ++ [Notif.next v] })
          (Eff.grp s.groups.length (Notif.next v))) s.groups.length (.next ())
        refine ⟨l, ?_⟩
        simp [hdg, hi, hl, hout3]
      | succ m =>
        refine ⟨[], ?_⟩
        simp [hdg, writerNext, modGrp_get, hg4, hi, hout3]
  · cases hdg : cfg.dgrp s.groups.length with
    | none =>
      refine ⟨[], ?_⟩
      simp [hdg, writerNext, hg4, hi, hout3]
    | some n =>
      cases n with
      | zero =>
        obtain ⟨l, hl⟩ := OutExt_durFire cfg (emit (modGrp t s.groups.length fun r => { r with wlog := r.wlog ++ [Notif.next v] })
          (Eff.tap s.groups.length (Notif.next v))) s.groups.length (.next ())
        refine ⟨l, ?_⟩
        simp [hdg, hi, hl, hout3]
      | succ m =>
        refine ⟨[], ?_⟩
        simp [hdg, writerNext, modGrp_get, hg4, hi, hout3]

theorem writerTerm_out_active (s : St κ β) (g : Nat) (n : Notif β) (r : Grp κ β) (hg : s.groups[g]? = some r)
    (hst : r.stopped = false) (hsub : r.sub = .active) :
    ∃ l, (writerTerm s g n).out = s.out ++ [.tap g n, .grp g n] ++ l ∧ ∀ e ∈ l, Eff.isUnsub e = true := by
  unfold writerTerm
  simp only [hg, hst, Bool.false_eq_true, if_false, hsub, if_true]
  obtain ⟨l, hl, hu⟩ := OutU_subEnd (emit (modGrp (emit (modGrp s g fun r => { r with stopped := true, exc := excOf n, wlog := r.wlog ++ [n] })
    (Eff.tap g n)) g fun r => { r with seen := r.seen ++ [n] }) (Eff.grp g n)) g
  exact ⟨l, by rw [hl]; simp, hu⟩

/-- **derived_duration_counts**: while the group-derived duration `g.pipe(skip n)` still has elements to skip, an element
is delivered (tap, then the subscriber) and the counter goes down; nothing else happens. -/
theorem derived_duration_counts (cfg : Cfg α κ β) (s : St κ β) (g : Nat) (v : β) (r : Grp κ β) (m : Nat)
    (hg : s.groups[g]? = some r) (hst : r.stopped = false) (hl : r.dur = .live) (hdg : (cfg.dgrp g).isSome = true)
    (hc : r.dcnt = m + 1) (hsub : r.sub = .active) :
    (writerNextD cfg s g v).out = s.out ++ [.tap g (.next v), .grp g (.next v)] ∧
    (writerNextD cfg s g v).groups[g]? = some { r with dcnt := m, wlog := r.wlog ++ [.next v], seen := r.seen ++ [.next v] } := by
  have hcond : (r.dur = DurSt.live ∧ (cfg.dgrp g).isSome = true) := ⟨hl, hdg⟩
  unfold writerNextD
  simp only [hg, hst, Bool.false_eq_true, if_false, hcond, if_true, hc, Nat.add_one_ne_zero]
  unfold writerNext
  simp [hg, hst, hsub, hc, hl, modGrp, emit]

/-- **derived_duration_expires_with_element**: when the counter is exhausted the next element of the group is
delivered to the tap and to the subscriber attached inside the outer `on_next` *first*, and then — inside the same
`writer.on_next` — the group completes (expire()): `completed` is the very next notification of both; only
unsubscriptions follow. -/
theorem derived_duration_expires_with_element (cfg : Cfg α κ β) (s : St κ β) (g : Nat) (v : β) (r : Grp κ β)
    (hg : s.groups[g]? = some r) (hst : r.stopped = false) (hl : r.dur = .live) (hdg : (cfg.dgrp g).isSome = true)
    (hc : r.dcnt = 0) (hsub : r.sub = .active) (hearly : r.subLate = false)
    (hkey : (s.writers.find? (fun p => cfg.keyEq p.1 r.key)).isSome = true) :
    ∃ l, (writerNextD cfg s g v).out =
        s.out ++ [.tap g (.next v), .grp g (.next v), .tap g .completed, .grp g .completed] ++ l ∧
      ∀ e ∈ l, Eff.isUnsub e = true := by
  have hcond : (r.dur = DurSt.live ∧ (cfg.dgrp g).isSome = true) := ⟨hl, hdg⟩
  unfold writerNextD
  simp only [hg, hst, Bool.false_eq_true, if_false, hcond, and_self, if_true, hc, hsub, hearly]
  -- the state after delivering v to the tap and the early subscriber
  generalize hu : (emit (modGrp (emit (modGrp s g fun r => { r with wlog := r.wlog ++ [Notif.next v] }) (Eff.tap g (Notif.next v))) g
      fun r => { r with seen := r.seen ++ [Notif.next v] }) (Eff.grp g (Notif.next v))) = u
  have hug : u.groups[g]? = some { r with wlog := r.wlog ++ [.next v], seen := r.seen ++ [.next v] } := by
    rw [← hu]; simp [modGrp, emit, List.getElem?_modify, hg]
  have huo : u.out = s.out ++ [.tap g (.next v), .grp g (.next v)] := by rw [← hu]; simp
  have huw : u.writers = s.writers := by rw [← hu]; rfl
  simp only [durFire]
  -- expire(): the key is present, the writer completes
  unfold expire
  simp only [hug, huw]
  cases hf : s.writers.find? (fun p => cfg.keyEq p.1 r.key) with
  | none => rw [hf] at hkey; cases hkey
  | some p =>
    simp only
    have hwg : (modGrp { u with writers := s.writers.eraseP (fun p => cfg.keyEq p.1 r.key) } g fun r => { r with expired := true }).groups[g]? =
        some { r with wlog := r.wlog ++ [.next v], seen := r.seen ++ [.next v], expired := true } := by
      rw [modGrp_get]; simp [hug]
    obtain ⟨l1, h1, u1⟩ := writerTerm_out_active _ g .completed _ hwg hst hsub
    have hwo : (modGrp { u with writers := s.writers.eraseP (fun p => cfg.keyEq p.1 r.key) } g fun r => { r with expired := true }).out = u.out := rfl
    rw [hwo] at h1
    split
    · obtain ⟨l2, h2, u2⟩ := OutU_closeDur (writerTerm (modGrp { u with writers := s.writers.eraseP (fun p => cfg.keyEq p.1 r.key) } g
        fun r => { r with expired := true }) g .completed) g
      refine ⟨l1 ++ l2, ?_, ?_⟩
      · rw [h2, h1, huo]; simp
      · intro e he; rcases List.mem_append.mp he with h | h
        · exact u1 e h
        · exact u2 e h
    · obtain ⟨l2, h2, u2⟩ := OutU_closeDur (writerTerm (modGrp { u with writers := s.writers.eraseP (fun p => cfg.keyEq p.1 r.key) } g
        fun r => { r with expired := true }) g .completed) g
      obtain ⟨l3, h3, u3⟩ := OutU_closeDur (closeDur (writerTerm (modGrp { u with writers := s.writers.eraseP (fun p => cfg.keyEq p.1 r.key) } g
        fun r => { r with expired := true }) g .completed) g) g
      refine ⟨l1 ++ l2 ++ l3, ?_, ?_⟩
      · rw [h3, h2, h1, huo]; simp
      · intro e he
        rcases List.mem_append.mp he with h | h
        · rcases List.mem_append.mp h with h | h
          · exact u1 e h
          · exact u2 e h
        · exact u3 e h
end WinGrp

/-! ## re-entrant feedback (`stepN`) -/
namespace WinGrp
variable {α κ β : Type}

/-! ### re-entrant feedback (`stepN`) -/
theorem announceN_eq {cfg : Cfg α κ β} (hn : ∀ g, cfg.nest g = []) (s : St κ β) (g : Nat) (k : κ) :
    announceN cfg s g k = announceD cfg s g k := by
  unfold announceN announceD
  simp [hn g]

theorem srcNextN_eq {cfg : Cfg α κ β} (hn : ∀ g, cfg.nest g = []) (s : St κ β) (x : α) : srcNextN cfg s x = srcNextD cfg s x := by
  unfold srcNextN srcNextD
  simp [announceN_eq hn]

theorem stepN_eq_stepD {cfg : Cfg α κ β} (hn : ∀ g, cfg.nest g = []) (s : St κ β) (e : Ev α) : stepN cfg s e = stepD cfg s e := by
  cases e with
  | src n => cases n <;> simp [stepN, stepD, srcNextN_eq hn]
  | dur g n => rfl
  | disposeOuter => rfl
  | subGroup g => rfl
  | disposeGroup g => rfl

theorem runN_eq_runD {cfg : Cfg α κ β} (hn : ∀ g, cfg.nest g = []) (s : St κ β) (evs : List (Ev α)) : runN cfg s evs = runD cfg s evs := by
  induction evs generalizing s with
  | nil => rfl
  | cons e es ih => simp [runN, runD, stepN_eq_stepD hn, ih]

theorem announced1_more (cfg : Cfg α κ β) (s : St κ β) (k : κ) :
    (announced1 cfg s k).srcStopped = s.srcStopped ∧ (announced1 cfg s k).groups.length = s.groups.length + 1 ∧
    (announced1 cfg s k).outStopped = s.outStopped := by
  have hg1 : (emit (modGrp (addGroup s k) s.groups.length fun r => { r with announced := true })
      (.outer (.next (s.groups.length, k)))).groups[s.groups.length]? = some { key := k, announced := true } := by
    have := modGrp_get (addGroup s k) s.groups.length (fun r => { r with announced := true })
    rw [addGroup_get] at this
    exact this
  by_cases hi : cfg.imm s.groups.length = true
  · have e := subscribeGroup_open _ _ _ hg1 rfl rfl rfl
    unfold announced1
    simp only [hi, if_true]
    rw [e]
    exact ⟨rfl, by simp [addGroup], rfl⟩
  · unfold announced1
    simp only [hi, Bool.false_eq_true, if_false]
    exact ⟨rfl, by simp [addGroup], rfl⟩

theorem writerNext_facts (s : St κ β) (g : Nat) (v : β) (r : Grp κ β) (hg : s.groups[g]? = some r) (hst : r.stopped = false) :
    (writerNext s g v).out = s.out ++ (.tap g (.next v) :: (if r.sub = .active then [.grp g (.next v)] else [])) ∧
    (writerNext s g v).groups[g]? =
      some ({ r with wlog := r.wlog ++ [.next v], seen := (if r.sub = .active then r.seen ++ [.next v] else r.seen) } : Grp κ β) ∧
    (writerNext s g v).rcdDisposed = s.rcdDisposed ∧ (writerNext s g v).groups.length = s.groups.length := by
  unfold writerNext
  by_cases ha : r.sub = .active <;> simp [hg, hst, ha, modGrp, emit]

theorem find?_append_last {A} (p : A → Bool) (l : List A) (a : A) (h : l.find? p = none) (ha : p a = true) :
    (l ++ [a]).find? p = some a := by
  rw [List.find?_append, h]; simp [ha]

theorem nested_same_key_element_routed (cfg : Cfg α κ β) (hrefl : ∀ k, cfg.keyEq k k = true) (s : St κ β)
    (x y : α) (k : κ) (v vy : β)
    (hs : s.srcStopped = false) (ho : s.outStopped = false) (hd : s.rcdDisposed = false)
    (hk : cfg.keyMapper x = .ok k) (hf : s.writers.find? (fun p => cfg.keyEq p.1 k) = none)
    (hsm : cfg.subjMapper s.groups.length = .ok ()) (hdm : cfg.durMapper s.groups.length = .ok ())
    (hv : cfg.elemMapper x = .ok v)
    (hnest : cfg.nest s.groups.length = [y]) (hky : cfg.keyMapper y = .ok k) (hvy : cfg.elemMapper y = .ok vy)
    (hplain : cfg.dgrp s.groups.length = none ∧ cfg.dsync s.groups.length = none) :
    (stepN cfg s (.src (.next x))).out =
      s.out ++ (.outer (.next (s.groups.length, k)) :: .tap s.groups.length (.next vy) ::
        (if cfg.imm s.groups.length then [.grp s.groups.length (.next vy)] else []) ++
        .subDur s.groups.length :: .tap s.groups.length (.next v) ::
        (if cfg.imm s.groups.length then [.grp s.groups.length (.next v)] else [])) ∧
    (stepN cfg s (.src (.next x))).groups.length = s.groups.length + 1 ∧
    ((stepN cfg s (.src (.next x))).groups[s.groups.length]?).map (·.wlog) = some [.next vy, .next v] := by
  obtain ⟨hout2, hd2, hw2, hg2⟩ := announced1_facts cfg s k hd
  obtain ⟨hs2, hl2, ho2⟩ := announced1_more cfg s k
  -- the nested element: key found (the writer is already registered), pushed to group g
  have hfind : (announced1 cfg s k).writers.find? (fun p => cfg.keyEq p.1 k) = some (k, s.groups.length) := by
    rw [hw2]; exact find?_append_last _ _ _ hf (hrefl k)
  have hnested : srcNextD cfg (announced1 cfg s k) y = writerNext (announced1 cfg s k) s.groups.length vy := by
    unfold srcNextD
    simp only [hky, hfind]
    unfold pushElemD
    simp only [hvy]
    unfold writerNextD
    simp [hg2]
  obtain ⟨o3, g3, d3, l3⟩ := writerNext_facts (announced1 cfg s k) s.groups.length vy _ hg2 rfl
  rw [← hnested] at o3 g3 d3 l3
  -- the step, unfolded down to the feedback
  have hstep : stepN cfg s (.src (.next x)) =
      writerNextD cfg (emit (modGrp (srcNextD cfg (announced1 cfg s k) y) s.groups.length fun r => { r with dur := .live })
        (.subDur s.groups.length)) s.groups.length v := by
    show (if s.srcStopped = true then s else srcNextN cfg s x) = _
    rw [if_neg (by simp [hs])]
    unfold srcNextN
    simp only [hk, hf, hsm, hdm]
    unfold pushElemD
    simp only [hv]
    congr 1
    have ho' : (addGroup s k).outStopped = false := ho
    show announceN cfg (addGroup s k) s.groups.length k = _
    unfold announceN
    simp only [ho', Bool.false_eq_true, if_false, hnest, List.foldl, hplain.1, hplain.2]
    have e1 : (if cfg.imm s.groups.length = true then
        subscribeGroup (emit (modGrp (addGroup s k) s.groups.length fun r => { r with announced := true })
          (Eff.outer (Notif.next (s.groups.length, k)))) s.groups.length
        else emit (modGrp (addGroup s k) s.groups.length fun r => { r with announced := true })
          (Eff.outer (Notif.next (s.groups.length, k)))) = announced1 cfg s k := rfl
    rw [e1]
    simp [hs2, hs, d3, hd2]
  rw [hstep]
  generalize srcNextD cfg (announced1 cfg s k) y = s3 at o3 g3 d3 l3
  -- the duration is subscribed, then the creating element is pushed
  have hg4 := modGrp_get s3 s.groups.length (fun r => { r with dur := DurSt.live })
  rw [g3] at hg4
  simp only [Option.map_some] at hg4
  have hwd : writerNextD cfg (emit (modGrp s3 s.groups.length fun r => { r with dur := DurSt.live }) (Eff.subDur s.groups.length))
      s.groups.length v = writerNext (emit (modGrp s3 s.groups.length fun r => { r with dur := DurSt.live })
        (Eff.subDur s.groups.length)) s.groups.length v := by
    unfold writerNextD writerNext
    rw [show (emit (modGrp s3 s.groups.length fun r => { r with dur := DurSt.live }) (Eff.subDur s.groups.length)).groups[s.groups.length]? = _ from hg4]
    simp [hplain.1]
  rw [hwd]
  obtain ⟨o5, g5, _, l5⟩ := writerNext_facts (emit (modGrp s3 s.groups.length fun r => { r with dur := DurSt.live })
    (Eff.subDur s.groups.length)) s.groups.length v _ hg4 rfl
  refine ⟨?_, ?_, ?_⟩
  · rw [o5]; simp only [emit_out, modGrp_out, o3, hout2]
    by_cases hi : cfg.imm s.groups.length = true <;> simp [hi]
  · rw [l5]; simp [l3, hl2]
  · rw [g5]; simp
end WinGrp

import RxProofs.Lemmas.SubjReplayThm
/-!
# ReplaySubject: nothing stays queued — the single-threaded ScheduledObserver drains

`LInv`: a ScheduledObserver with a non-empty queue has faulted or is *acquired*; an acquired one has a
live `run` action in the scheduler's queue, or is in the middle of `run` (about to reschedule itself), or
its SerialDisposable has been disposed (it was unsubscribed / auto-detached: the pending first `run` was
cancelled).  Hence when `start()` returns normally every queue of an undisposed ScheduledObserver is empty.
-/

namespace SubjReplay
open Subj (Action Call upd disposedExn upd_apply)
variable {α : Type}

def isRun (i : Id) (it : Item α) : Bool :=
  match it.kind with
  | .run k => k == i
  | _ => false

def runPending (p : List (Item α)) (i : Id) : Prop := ∃ it ∈ p, isRun i it = true ∧ it.cancelled = false

/-- `X1` / `X2`: observers temporarily exempt from the first / second clause (inside a subject method,
between the `append` and `ensure_active`; between dequeuing a `run` item and rescheduling). -/
structure LInvX (X1 X2 : Id → Prop) (st : St α) : Prop where
  l1 : ∀ i, ¬X1 i → st.soQueue i ≠ [] → st.faulted i = true ∨ st.acquired i = true
  l2 : ∀ i, ¬X2 i → st.acquired i = true →
    st.faulted i = true ∨ st.serDisposed i = true ∨ runPending st.pending i ∨ Task.resched i ∈ st.agenda
  l3 : ∀ i id, st.serCur i = some id → id < st.nextId ∧ ∀ it ∈ st.pending, it.id = id → isRun i it = true
  l4 : ∀ it ∈ st.pending, it.id < st.nextId

abbrev LInv (st : St α) : Prop := LInvX (fun _ => False) (fun _ => False) st

theorem LInvX.weaken {X1 X2 Y1 Y2 : Id → Prop} {st : St α} (h : LInvX X1 X2 st) (h1 : ∀ i, X1 i → Y1 i)
    (h2 : ∀ i, X2 i → Y2 i) : LInvX Y1 Y2 st :=
  ⟨fun i hi => h.l1 i (fun hx => hi (h1 i hx)), fun i hi => h.l2 i (fun hx => hi (h2 i hx)), h.l3, h.l4⟩

/-! ### the priority queue -/

theorem mem_pqInsert (it x : Item α) (p : List (Item α)) : x ∈ pqInsert it p ↔ x = it ∨ x ∈ p := by
  induction p with
  | nil => simp [pqInsert]
  | cons y ys ih =>
    simp only [pqInsert]
    split
    · simp
    · simp only [List.mem_cons, ih]
      constructor
      · rintro (h | h | h) <;> simp [h]
      · rintro (h | h | h) <;> simp [h]

theorem mem_cancelItem (id : Nat) (x : Item α) (p : List (Item α)) :
    x ∈ cancelItem id p ↔ ∃ y ∈ p, x = if y.id = id then { y with cancelled := true } else y := by
  simp [cancelItem, eq_comm]

theorem runPending_pqInsert_of (it : Item α) (p : List (Item α)) (i : Id) (h : runPending p i) :
    runPending (pqInsert it p) i := by
  obtain ⟨x, hx, h1, h2⟩ := h
  exact ⟨x, (mem_pqInsert _ _ _).mpr (Or.inr hx), h1, h2⟩

theorem runPending_pqInsert_new (p : List (Item α)) (i : Id) (due id : Nat) :
    runPending (pqInsert { due := due, id := id, kind := .run i } p) i :=
  ⟨_, (mem_pqInsert _ _ _).mpr (Or.inl rfl), by simp [isRun], rfl⟩

/-- Cancelling an item that is not one of `i`'s leaves `i`'s pending runs alone. -/
theorem runPending_cancel (id : Nat) (p : List (Item α)) (i : Id) (h : runPending p i)
    (hid : ∀ it ∈ p, it.id = id → isRun i it = false) : runPending (cancelItem id p) i := by
  obtain ⟨x, hx, h1, h2⟩ := h
  refine ⟨x, (mem_cancelItem _ _ _).mpr ⟨x, hx, ?_⟩, h1, h2⟩
  split
  · rename_i he
    have := hid x hx he
    rw [h1] at this
    exact absurd this (by simp)
  · rfl

theorem cancelItem_id_kind (id : Nat) (p : List (Item α)) (x : Item α) (hx : x ∈ cancelItem id p) :
    ∃ y ∈ p, x.id = y.id ∧ x.kind = y.kind := by
  obtain ⟨y, hy, rfl⟩ := (mem_cancelItem _ _ _).mp hx
  refine ⟨y, hy, ?_⟩
  split <;> simp

theorem isRun_eq_of_kind {x y : Item α} (h : x.kind = y.kind) (i : Id) : isRun i x = isRun i y := by
  simp [isRun, h]

theorem isRun_unique {x : Item α} {i k : Id} (h1 : isRun i x = true) (h2 : isRun k x = true) : i = k := by
  unfold isRun at h1 h2
  cases hk : x.kind with
  | call a b => simp [hk] at h1
  | run j =>
    simp only [hk, beq_iff_eq] at h1 h2
    rw [← h1, ← h2]

/-! ### primitives -/

theorem scheduleRun_linv {X1 X2 : Id → Prop} {st : St α} (i : Id) (h : LInvX X1 X2 st) :
    LInvX X1 (fun k => X2 k ∧ k ≠ i) (scheduleRun st i).1 := by
  obtain ⟨l1, l2, l3, l4⟩ := h
  unfold scheduleRun
  refine ⟨l1, ?_, ?_, ?_⟩
  · intro k hk hacq
    by_cases hki : k = i
    · subst hki
      exact Or.inr (Or.inr (Or.inl (runPending_pqInsert_new _ _ _ _)))
    · have hx : ¬X2 k := fun hx => hk ⟨hx, hki⟩
      rcases l2 k hx hacq with h | h | h | h
      · exact Or.inl h
      · exact Or.inr (Or.inl h)
      · exact Or.inr (Or.inr (Or.inl (runPending_pqInsert_of _ _ _ h)))
      · exact Or.inr (Or.inr (Or.inr h))
  · intro k id hs
    have := l3 k id hs
    refine ⟨Nat.lt_succ_of_lt this.1, ?_⟩
    intro it hit hid
    rcases (mem_pqInsert _ _ _).mp hit with rfl | hit
    · simp at hid; omega
    · exact this.2 it hit hid
  · intro it hit
    rcases (mem_pqInsert _ _ _).mp hit with rfl | hit
    · simp
    · exact Nat.lt_succ_of_lt (l4 it hit)

theorem soPush_linv {X1 X2 : Id → Prop} {st : St α} (i : Id) (n : Notif α) (h : LInvX X1 X2 st) :
    LInvX (fun k => X1 k ∨ k = i) X2 (soPush st i n) := by
  obtain ⟨l1, l2, l3, l4⟩ := h
  unfold soPush
  split
  · exact ⟨fun k hk => l1 k (fun hx => hk (Or.inl hx)), l2, l3, l4⟩
  · refine ⟨?_, l2, l3, l4⟩
    intro k hk hq
    have hki : k ≠ i := fun e => hk (Or.inr e)
    exact l1 k (fun hx => hk (Or.inl hx)) (by simpa [hki] using hq)

theorem soDispose_linv {X1 X2 : Id → Prop} {st : St α} (i : Id) (h : LInvX X1 X2 st) : LInvX X1 X2 (soDispose st i) := by
  obtain ⟨l1, l2, l3, l4⟩ := h
  unfold soDispose
  dsimp only
  split
  · exact ⟨l1, l2, l3, l4⟩
  · have hcancel : ∀ old, st.serCur i = some old →
        LInvX X1 X2 { st with soStopped := upd st.soStopped i true, serDisposed := upd st.serDisposed i true, serCur := upd st.serCur i none, pending := cancelItem old st.pending } := by
      intro old hold
      have ho := l3 i old hold
      refine ⟨l1, ?_, ?_, ?_⟩
      · intro k hk hacq
        by_cases hki : k = i
        · subst hki; exact Or.inr (Or.inl (by simp))
        · rcases l2 k hk hacq with h | h | h | h
          · exact Or.inl h
          · exact Or.inr (Or.inl (by simpa [hki] using h))
          · refine Or.inr (Or.inr (Or.inl (runPending_cancel _ _ _ h ?_)))
            intro it hit hid
            have := ho.2 it hit hid
            cases hr : isRun k it with
            | false => rfl
            | true => exact absurd (isRun_unique hr this) hki
          · exact Or.inr (Or.inr (Or.inr h))
      · intro k id hs
        by_cases hki : k = i
        · subst hki; simp at hs
        · have hs' : st.serCur k = some id := by simpa [hki] using hs
          have := l3 k id hs'
          refine ⟨this.1, ?_⟩
          intro it hit hid
          obtain ⟨y, hy, e1, e2⟩ := cancelItem_id_kind _ _ _ hit
          rw [isRun_eq_of_kind e2]
          exact this.2 y hy (by rw [← e1]; exact hid)
      · intro it hit
        obtain ⟨y, hy, e1, _⟩ := cancelItem_id_kind _ _ _ hit
        rw [e1]; exact l4 y hy
    split
    · rename_i old hold
      exact hcancel old hold
    · rename_i hnone
      refine ⟨l1, ?_, ?_, l4⟩
      · intro k hk hacq
        by_cases hki : k = i
        · subst hki; exact Or.inr (Or.inl (by simp))
        · rcases l2 k hk hacq with h | h | h | h
          · exact Or.inl h
          · exact Or.inr (Or.inl (by simpa [hki] using h))
          · exact Or.inr (Or.inr (Or.inl h))
          · exact Or.inr (Or.inr (Or.inr h))
      · intro k id hs
        by_cases hki : k = i
        · subst hki; simp at hs
        · exact l3 k id (by simpa [hki] using hs)

/-- Changes outside the ScheduledObserver / scheduler fields do not matter. -/
theorem LInvX.congr {X1 X2 : Id → Prop} {st st' : St α} (h : LInvX X1 X2 st)
    (e1 : st'.soQueue = st.soQueue) (e2 : st'.faulted = st.faulted) (e3 : st'.acquired = st.acquired)
    (e4 : st'.serDisposed = st.serDisposed) (e5 : st'.pending = st.pending) (e6 : st'.serCur = st.serCur)
    (e7 : st'.nextId = st.nextId) (e8 : ∀ i, Task.resched i ∈ st.agenda → Task.resched i ∈ st'.agenda) :
    LInvX X1 X2 st' := by
  obtain ⟨l1, l2, l3, l4⟩ := h
  refine ⟨?_, ?_, ?_, ?_⟩
  · rw [e1, e2, e3]; exact l1
  · intro i hi ha
    rw [e3] at ha
    rw [e2, e4, e5]
    rcases l2 i hi ha with h | h | h | h
    · exact Or.inl h
    · exact Or.inr (Or.inl h)
    · exact Or.inr (Or.inr (Or.inl h))
    · exact Or.inr (Or.inr (Or.inr (e8 i h)))
  · rw [e6, e7, e5]; exact l3
  · rw [e5, e7]; exact l4

theorem removableDispose_linv {X1 X2 : Id → Prop} {st : St α} (i : Id) (h : LInvX X1 X2 st) :
    LInvX X1 X2 (removableDispose st i) := by
  unfold removableDispose
  dsimp only
  split
  · exact (soDispose_linv i h).congr rfl rfl rfl rfl rfl rfl rfl (fun _ h => h)
  · exact soDispose_linv i h

theorem sadDispose_linv {X1 X2 : Id → Prop} {st : St α} (i : Id) (h : LInvX X1 X2 st) :
    LInvX X1 X2 (sadDispose st i) := by
  unfold sadDispose
  dsimp only
  split
  · exact h
  · split
    · exact removableDispose_linv i (h.congr rfl rfl rfl rfl rfl rfl rfl (fun _ h => h))
    · exact h.congr rfl rfl rfl rfl rfl rfl rfl (fun _ h => h)

theorem ensureActive_linv {X1 X2 : Id → Prop} {st : St α} (i : Id) (h : LInvX X1 X2 st) :
    LInvX (fun k => X1 k ∧ k ≠ i) X2 (ensureActive st i) := by
  unfold ensureActive
  split
  · rename_i hc
    simp only [Bool.and_eq_true, Bool.not_eq_true', List.isEmpty_eq_false_iff] at hc
    split
    · -- already acquired
      rename_i hacq
      refine ⟨?_, h.l2, h.l3, h.l4⟩
      intro k hk hq
      by_cases hki : k = i
      · subst hki; exact Or.inr hacq
      · exact h.l1 k (fun hx => hk ⟨hx, hki⟩) hq
    · -- become the owner
      rename_i hacq
      have h1 : LInvX (fun k => X1 k ∧ k ≠ i) (fun k => X2 k ∨ k = i) { st with acquired := upd st.acquired i true } := by
        refine ⟨?_, ?_, h.l3, h.l4⟩
        · intro k hk hq
          by_cases hki : k = i
          · subst hki; exact Or.inr (by simp)
          · rcases h.l1 k (fun hx => hk ⟨hx, hki⟩) hq with h' | h'
            · exact Or.inl h'
            · exact Or.inr (by simpa [hki] using h')
        · intro k hk hacq'
          have hki : k ≠ i := fun e => hk (Or.inr e)
          exact h.l2 k (fun hx => hk (Or.inl hx)) (by simpa [hki] using hacq')
      have h2 := scheduleRun_linv i h1
      have h2 : LInvX (fun k => X1 k ∧ k ≠ i) X2 (scheduleRun { st with acquired := upd st.acquired i true } i).1 :=
        h2.weaken (fun _ h => h) (fun k hk => by
          rcases hk with ⟨hk | hk, hne⟩
          · exact hk
          · exact absurd hk hne)
      dsimp only
      -- the serial disposable
      obtain ⟨m1, m2, m3, m4⟩ := h2
      have hnew : ∀ it ∈ (scheduleRun { st with acquired := upd st.acquired i true } i).1.pending, it.id = st.nextId → isRun i it = true := by
        intro it hit hid
        simp only [scheduleRun] at hit
        rcases (mem_pqInsert _ _ _).mp hit with rfl | hit
        · simp [isRun]
        · have := h.l4 it hit; omega
      have hpres : ∀ (cid : Nat), (∀ it ∈ (scheduleRun { st with acquired := upd st.acquired i true } i).1.pending, it.id = cid → isRun i it = true) →
          ∀ k, k ≠ i → runPending (scheduleRun { st with acquired := upd st.acquired i true } i).1.pending k →
            runPending (cancelItem cid (scheduleRun { st with acquired := upd st.acquired i true } i).1.pending) k := by
        intro cid hc k hki hr
        refine runPending_cancel _ _ _ hr ?_
        intro it hit hid
        cases hrk : isRun k it with
        | false => rfl
        | true => exact absurd (isRun_unique hrk (hc it hit hid)) hki
      split
      · -- SerialDisposable already disposed: the new item is cancelled at once
        rename_i hsd
        refine ⟨m1, ?_, ?_, ?_⟩
        · intro k hk hacq'
          by_cases hki : k = i
          · subst hki; exact Or.inr (Or.inl hsd)
          · rcases m2 k hk hacq' with h' | h' | h' | h'
            · exact Or.inl h'
            · exact Or.inr (Or.inl h')
            · exact Or.inr (Or.inr (Or.inl (hpres _ hnew k hki h')))
            · exact Or.inr (Or.inr (Or.inr h'))
        · intro k id hs
          have := m3 k id hs
          refine ⟨this.1, ?_⟩
          intro it hit hid
          obtain ⟨y, hy, e1, e2⟩ := cancelItem_id_kind _ _ _ hit
          rw [isRun_eq_of_kind e2]
          exact this.2 y hy (by rw [← e1]; exact hid)
        · intro it hit
          obtain ⟨y, hy, e1, _⟩ := cancelItem_id_kind _ _ _ hit
          rw [e1]; exact m4 y hy
      · rename_i hsd
        -- common part: serCur i := the new item
        have hser : ∀ k id, upd (scheduleRun { st with acquired := upd st.acquired i true } i).1.serCur i (some st.nextId) k = some id →
            id < (scheduleRun { st with acquired := upd st.acquired i true } i).1.nextId ∧
            ∀ it ∈ (scheduleRun { st with acquired := upd st.acquired i true } i).1.pending, it.id = id → isRun k it = true := by
          intro k id hs
          by_cases hki : k = i
          · subst hki
            simp only [upd_apply, if_true, Option.some.injEq] at hs
            subst hs
            exact ⟨by simp [scheduleRun], hnew⟩
          · exact m3 k id (by simpa [hki] using hs)
        split
        · rename_i old hold
          have hold' : st.serCur i = some old := by simpa [scheduleRun] using hold
          have ho := m3 i old hold
          have holdlt : old < st.nextId := (h.l3 i old hold').1
          refine ⟨m1, ?_, ?_, ?_⟩
          · intro k hk hacq'
            by_cases hki : k = i
            · subst hki
              refine Or.inr (Or.inr (Or.inl ?_))
              refine ⟨{ due := st.clock, id := st.nextId, kind := .run k }, ?_, by simp [isRun], rfl⟩
              refine (mem_cancelItem _ _ _).mpr ⟨{ due := st.clock, id := st.nextId, kind := .run k }, ?_, ?_⟩
              · simp only [scheduleRun]
                exact (mem_pqInsert _ _ _).mpr (Or.inl rfl)
              · have : st.nextId ≠ old := by omega
                simp [this]
            · rcases m2 k hk hacq' with h' | h' | h' | h'
              · exact Or.inl h'
              · exact Or.inr (Or.inl h')
              · exact Or.inr (Or.inr (Or.inl (hpres _ ho.2 k hki h')))
              · exact Or.inr (Or.inr (Or.inr h'))
          · intro k id hs
            have := hser k id hs
            refine ⟨this.1, ?_⟩
            intro it hit hid
            obtain ⟨y, hy, e1, e2⟩ := cancelItem_id_kind _ _ _ hit
            rw [isRun_eq_of_kind e2]
            exact this.2 y hy (by rw [← e1]; exact hid)
          · intro it hit
            obtain ⟨y, hy, e1, _⟩ := cancelItem_id_kind _ _ _ hit
            rw [e1]; exact m4 y hy
        · refine ⟨m1, ?_, hser, m4⟩
          intro k hk hacq'
          by_cases hki : k = i
          · subst hki
            exact Or.inr (Or.inr (Or.inl (by simp only [scheduleRun]; exact runPending_pqInsert_new _ _ _ _)))
          · exact m2 k hk hacq'
  · rename_i hc
    refine ⟨?_, h.l2, h.l3, h.l4⟩
    intro k hk hq
    by_cases hki : k = i
    · subst hki
      simp only [Bool.and_eq_true, Bool.not_eq_true', List.isEmpty_eq_false_iff, not_and] at hc
      cases hf : st.faulted k with
      | true => exact Or.inl rfl
      | false => exact absurd hq (hc hf)
    · exact h.l1 k (fun hx => hk ⟨hx, hki⟩) hq

/-! ### the loops of the subject -/

theorem pushList_linv {X1 X2 : Id → Prop} (j : Id) (ns : List (Notif α)) (st : St α) (h : LInvX X1 X2 st) :
    LInvX (fun k => X1 k ∨ k = j) X2 (pushList st j ns) := by
  induction ns generalizing st X1 with
  | nil => exact h.weaken (fun _ h => Or.inl h) (fun _ h => h)
  | cons n ns ih =>
    simp only [pushList]
    exact (ih _ (soPush_linv j n h)).weaken (fun k hk => by rcases hk with (hk | hk) | hk <;> simp [hk]) (fun _ h => h)

theorem pushAll_linv {X1 X2 : Id → Prop} (n : Notif α) (l : List Id) (st : St α) (h : LInvX X1 X2 st) :
    LInvX (fun k => X1 k ∨ k ∈ l) X2 (pushAll n l st) := by
  induction l generalizing st X1 with
  | nil => exact h.weaken (fun _ h => Or.inl h) (fun _ h => h)
  | cons i is ih =>
    simp only [pushAll]
    exact (ih _ (soPush_linv i n h)).weaken (fun k hk => by rcases hk with (hk | hk) | hk <;> simp [hk]) (fun _ h => h)

theorem ensureAll_linv {X1 X2 : Id → Prop} (l : List Id) (st : St α) (h : LInvX X1 X2 st) :
    LInvX (fun k => X1 k ∧ k ∉ l) X2 (ensureAll l st) := by
  induction l generalizing st X1 with
  | nil => exact h.weaken (fun _ h => ⟨h, by simp⟩) (fun _ h => h)
  | cons i is ih =>
    simp only [ensureAll]
    exact (ih _ (ensureActive_linv i h)).weaken
      (fun k hk => ⟨hk.1.1, by simp only [List.mem_cons, not_or]; exact ⟨hk.1.2, hk.2⟩⟩) (fun _ h => h)

theorem pushEnsureAll_linv {X2 : Id → Prop} (n : Notif α) (l : List Id) (st : St α) (h : LInvX (fun _ => False) X2 st) :
    LInvX (fun _ => False) X2 (pushEnsureAll n l st) := by
  induction l generalizing st with
  | nil => exact h
  | cons i is ih =>
    simp only [pushEnsureAll]
    refine ih _ ((ensureActive_linv i (soPush_linv i n h)).weaken ?_ (fun _ h => h))
    intro k hk
    rcases hk with ⟨hk | hk, hne⟩
    · exact hk
    · exact absurd hk hne

theorem emit_linv (cfg : Cfg α) {X2 : Id → Prop} {st : St α} (who : Option Id) (n : Notif α)
    (h : LInvX (fun _ => False) X2 st) : LInvX (fun _ => False) X2 (emit cfg st who n) := by
  unfold emit
  split
  · cases who <;> exact h.congr rfl rfl rfl rfl rfl rfl rfl (fun _ h => h)
  · split
    · exact h
    · dsimp only
      split
      · rename_i v
        have h0 : LInvX (fun _ => False) X2 { st with queue := trim cfg st.clock (st.queue ++ [(st.clock, v)]), allVals := st.allVals ++ [(st.clock, v)], lastNow := st.clock } :=
          h.congr rfl rfl rfl rfl rfl rfl rfl (fun _ h => h)
        have h1 := pushAll_linv (.next v) st.observers _ h0
        have h2 := ensureAll_linv st.observers _ h1
        exact h2.weaken (fun k hk => by rcases hk with ⟨hk | hk, hn⟩; exact hk; exact absurd hk hn) (fun _ h => h)
      · have h0 : ∀ exc, LInvX (fun _ => False) X2 { st with stopped := true, observers := [], exception := exc, queue := trim cfg st.clock st.queue, lastNow := st.clock } :=
          fun _ => h.congr rfl rfl rfl rfl rfl rfl rfl (fun _ h => h)
        exact pushEnsureAll_linv n st.observers _ (h0 _)

theorem subscribeCore_linv (cfg : Cfg α) {X2 : Id → Prop} {st : St α} (j : Id) (h : LInvX (fun _ => False) X2 st) :
    LInvX (fun _ => False) X2 (subscribeCore cfg st j) := by
  unfold subscribeCore
  dsimp only
  have h0 : LInvX (fun _ => False) X2 { st with queue := trim cfg st.clock st.queue, lastNow := st.clock, observers := st.observers ++ [j] } :=
    h.congr rfl rfl rfl rfl rfl rfl rfl (fun _ h => h)
  have h1 := pushList_linv j ((trim cfg st.clock st.queue).map fun (it : Nat × α) => Notif.next it.2) _ h0
  generalize pushList _ j _ = s3 at h1 ⊢
  have h2 : LInvX (fun k => k = j) X2 (match s3.exception with
      | some e => soPush s3 j (.error e)
      | none => if s3.stopped = true then soPush s3 j .completed else s3) := by
    split
    · exact (soPush_linv j _ h1).weaken (fun k hk => by rcases hk with (hk | hk) | hk; exact absurd hk id; exact hk; exact hk) (fun _ h => h)
    · split
      · exact (soPush_linv j _ h1).weaken (fun k hk => by rcases hk with (hk | hk) | hk; exact absurd hk id; exact hk; exact hk) (fun _ h => h)
      · exact h1.weaken (fun k hk => by rcases hk with hk | hk; exact absurd hk id; exact hk) (fun _ h => h)
  have h3 := ensureActive_linv j h2
  exact (h3.weaken (fun k hk => absurd hk.1 hk.2) (fun _ h => h)).congr rfl rfl rfl rfl rfl rfl rfl (fun _ h => h)

theorem doSub_linv (cfg : Cfg α) {X2 : Id → Prop} {st : St α} (who : Option Id) (j : Id) (h : LInvX (fun _ => False) X2 st) :
    LInvX (fun _ => False) X2 (doSub cfg st who j).1 := by
  unfold doSub
  split
  · exact h
  · dsimp only
    split
    · split
      · exact h.congr rfl rfl rfl rfl rfl rfl rfl (fun _ h => h)
      · cases who <;> exact h.congr rfl rfl rfl rfl rfl rfl rfl (fun _ h => h)
    · exact subscribeCore_linv cfg j (h.congr rfl rfl rfl rfl rfl rfl rfl (fun _ h => h))

theorem doUnsub_linv {X1 X2 : Id → Prop} {st : St α} (j : Id) (h : LInvX X1 X2 st) : LInvX X1 X2 (doUnsub st j) := by
  unfold doUnsub
  split
  · exact sadDispose_linv j (h.congr rfl rfl rfl rfl rfl rfl rfl (fun _ h => h))
  · exact h

theorem adoDeliver_linv (cfg : Cfg α) {X1 X2 : Id → Prop} {st : St α} (i : Id) (n : Notif α) (h : LInvX X1 X2 st) :
    LInvX X1 X2 (adoDeliver cfg st i n).1 := by
  unfold adoDeliver callback
  dsimp only
  repeat' split
  all_goals first
    | exact h
    | exact h.congr rfl rfl rfl rfl rfl rfl rfl (fun _ h => h)
    | exact sadDispose_linv i (h.congr rfl rfl rfl rfl rfl rfl rfl (fun _ h => h))

theorem adoDeliver_agenda (cfg : Cfg α) (st : St α) (i : Id) (n : Notif α) : (adoDeliver cfg st i n).1.agenda = st.agenda := by
  have hs : ∀ s : St α, (sadDispose s i).agenda = s.agenda := by
    intro s
    unfold sadDispose removableDispose soDispose
    dsimp only
    repeat' split
    all_goals rfl
  unfold adoDeliver callback
  dsimp only
  repeat' split
  all_goals first | rfl | exact hs _

/-- `so_i.run`, entered with observer `i` exempt from the second clause (its `run` item was just dequeued). -/
theorem soRun_linv (cfg : Cfg α) {st : St α} (i : Id) (h : LInvX (fun _ => False) (fun k => k = i) st)
    (hag : st.agenda = []) : LInv (soRun cfg st i) := by
  unfold soRun
  split
  · -- nothing queued: release ownership
    refine ⟨?_, ?_, h.l3, h.l4⟩
    · intro k _ hq
      by_cases hki : k = i
      · subst hki; rename_i he; exact absurd he hq
      · rcases h.l1 k id hq with h' | h'
        · exact Or.inl h'
        · exact Or.inr (by simpa [hki] using h')
    · intro k _ hacq
      by_cases hki : k = i
      · subst hki; simp at hacq
      · exact h.l2 k hki (by simpa [hki] using hacq)
  · rename_i n rest hq
    have hq1 := h.l1 i id (by rw [hq]; simp)
    have h1 : LInvX (fun _ => False) (fun k => k = i) { st with soQueue := upd st.soQueue i rest, fed := upd st.fed i (st.fed i ++ [n]) } := by
      refine ⟨?_, h.l2, h.l3, h.l4⟩
      intro k _ hqk
      by_cases hki : k = i
      · subst hki; exact hq1
      · exact h.l1 k id (by simpa [hki] using hqk)
    have h2 := adoDeliver_linv cfg i n h1
    have hag2 : (adoDeliver cfg { st with soQueue := upd st.soQueue i rest, fed := upd st.fed i (st.fed i ++ [n]) } i n).1.agenda = [] := by
      rw [adoDeliver_agenda]; exact hag
    dsimp only
    generalize adoDeliver cfg _ i n = r at h2 hag2 ⊢
    split
    · -- the work item raised: queue dropped, faulted, the exception leaves start()
      refine ⟨?_, ?_, h2.l3, h2.l4⟩
      · intro k _ hqk
        by_cases hki : k = i
        · subst hki; exact Or.inl (by simp)
        · rcases h2.l1 k id (by simpa [hki] using hqk) with h' | h'
          · exact Or.inl (by simpa [hki] using h')
          · exact Or.inr h'
      · intro k _ hacq
        by_cases hki : k = i
        · subst hki; exact Or.inl (by simp)
        · rcases h2.l2 k hki hacq with h' | h' | h' | h'
          · exact Or.inl (by simpa [hki] using h')
          · exact Or.inr (Or.inl h')
          · exact Or.inr (Or.inr (Or.inl h'))
          · exact Or.inr (Or.inr (Or.inr h'))
    · refine ⟨h2.l1, ?_, h2.l3, h2.l4⟩
      intro k _ hacq
      by_cases hki : k = i
      · subst hki; exact Or.inr (Or.inr (Or.inr (by simp)))
      · rcases h2.l2 k hki hacq with h' | h' | h' | h'
        · exact Or.inl h'
        · exact Or.inr (Or.inl h')
        · exact Or.inr (Or.inr (Or.inl h'))
        · rw [hag2] at h'; exact absurd h' (by simp)

theorem doTask_linv (cfg : Cfg α) {st : St α} (t : Task α) (ts : List (Task α)) (h : LInv st) (hag : st.agenda = t :: ts) :
    LInv (doTask cfg { st with agenda := ts } t) := by
  -- popping a task that is not `resched k` keeps every clause
  have hpop : (∀ k, t ≠ .resched k) → LInv { st with agenda := ts } := by
    intro hne
    refine ⟨h.l1, ?_, h.l3, h.l4⟩
    intro k hk hacq
    rcases h.l2 k hk hacq with h' | h' | h' | h'
    · exact Or.inl h'
    · exact Or.inr (Or.inl h')
    · exact Or.inr (Or.inr (Or.inl h'))
    · rw [hag] at h'
      rcases List.mem_cons.mp h' with h' | h'
      · exact absurd h'.symm (hne k)
      · exact Or.inr (Or.inr (Or.inr h'))
  cases t with
  | act who a =>
    have h0 := hpop (by intro k; simp)
    cases a with
    | emit n =>
      simp only [doTask]
      refine emit_linv cfg who n ?_
      cases who <;> exact h0.congr rfl rfl rfl rfl rfl rfl rfl (fun _ h => h)
    | base a =>
    cases a with
    | sub j =>
      have := doSub_linv cfg who j h0
      simp only [doTask]
      exact this.congr rfl rfl rfl rfl rfl rfl rfl (fun _ h => List.mem_append_right _ h)
    | unsub j => exact doUnsub_linv j h0
    | dispose => exact h0.congr rfl rfl rfl rfl rfl rfl rfl (fun _ h => h)
  | sadDispose i => exact sadDispose_linv i (hpop (by intro k; simp))
  | handle j => exact (hpop (by intro k; simp)).congr rfl rfl rfl rfl rfl rfl rfl (fun _ h => h)
  | resched i =>
    have h0 : LInvX (fun _ => False) (fun k => k = i) { st with agenda := ts } := by
      refine ⟨h.l1, ?_, h.l3, h.l4⟩
      intro k hk hacq
      rcases h.l2 k id hacq with h' | h' | h' | h'
      · exact Or.inl h'
      · exact Or.inr (Or.inl h')
      · exact Or.inr (Or.inr (Or.inl h'))
      · rw [hag] at h'
        rcases List.mem_cons.mp h' with h' | h'
        · simp at h'; exact absurd h' hk
        · exact Or.inr (Or.inr (Or.inr h'))
    exact (scheduleRun_linv i h0).weaken (fun _ h => h) (fun k hk => absurd hk.1 hk.2)

theorem doCall_linv (cfg : Cfg α) {st : St α} (k : Nat) (c : Call α) (h : LInv st) (hag : st.agenda = []) :
    LInv (doCall cfg st k c) := by
  have h2 : LInv { st with curCall := k, evs := st.evs ++ [EvR.call k st.clock st.observers.length c] } :=
    h.congr rfl rfl rfl rfl rfl rfl rfl (fun _ h => h)
  have hnone : ∀ (ag : List (Task α)), LInv { st with curCall := k, evs := st.evs ++ [EvR.call k st.clock st.observers.length c], agenda := ag } :=
    fun ag => h.congr rfl rfl rfl rfl rfl rfl rfl (fun i hi => by rw [hag] at hi; exact absurd hi (by simp))
  unfold doCall
  cases c with
  | next v => exact emit_linv cfg none _ h2
  | error e => exact emit_linv cfg none _ h2
  | completed => exact emit_linv cfg none _ h2
  | sub i => exact hnone _
  | unsub i => exact hnone _
  | dispose => exact hnone _

theorem advance_lframe (st : St α) (due : Nat) :
    (advance st due).soQueue = st.soQueue ∧ (advance st due).faulted = st.faulted ∧ (advance st due).acquired = st.acquired ∧
    (advance st due).serDisposed = st.serDisposed ∧ (advance st due).pending = st.pending ∧
    (advance st due).serCur = st.serCur ∧ (advance st due).nextId = st.nextId ∧ (advance st due).agenda = st.agenda := by
  unfold advance
  dsimp only
  repeat' split
  all_goals simp

/-- **Every step preserves the liveness invariant.** -/
theorem step_linv (cfg : Cfg α) {st : St α} (h : LInv st) : LInv (step cfg st) := by
  unfold step
  split
  · exact h
  · split
    · rename_i t ts hag
      exact doTask_linv cfg t ts h hag
    · rename_i hag
      split
      · exact h
      · rename_i it rest hp
        obtain ⟨f1, f2, f3, f4, f5, f6, f7, f8⟩ := advance_lframe { st with pending := rest } it.due
        -- after the dequeue: every clause but the second one for the owner of a live `run` item
        have hrest : ∀ x ∈ rest, x ∈ st.pending := fun x hx => by rw [hp]; exact List.mem_cons_of_mem _ hx
        have hdeq : ∀ (X2 : Id → Prop), (∀ k, ¬X2 k → runPending st.pending k → runPending rest k) →
            LInvX (fun _ => False) X2 (advance { st with pending := rest } it.due) := by
          intro X2 hrp
          refine ⟨?_, ?_, ?_, ?_⟩
          · rw [f1, f2, f3]; exact h.l1
          · intro k hk hacq
            rw [f3] at hacq
            rw [f2, f4, f5, f8]
            rcases h.l2 k id hacq with h' | h' | h' | h'
            · exact Or.inl h'
            · exact Or.inr (Or.inl h')
            · exact Or.inr (Or.inr (Or.inl (hrp k hk h')))
            · exact Or.inr (Or.inr (Or.inr h'))
          · rw [f6, f7, f5]
            intro k id hs
            exact ⟨(h.l3 k id hs).1, fun x hx => (h.l3 k id hs).2 x (hrest x hx)⟩
          · rw [f5, f7]
            exact fun x hx => h.l4 x (hrest x hx)
        have hag2 : (advance { st with pending := rest } it.due).agenda = [] := by rw [f8]; exact hag
        -- a pending run of k that is not the dequeued item is still pending
        have hkeep : ∀ k, (isRun k it = false ∨ it.cancelled = true) → runPending st.pending k → runPending rest k := by
          intro k hk hr
          obtain ⟨x, hx, h1, h2⟩ := hr
          rw [hp] at hx
          rcases List.mem_cons.mp hx with rfl | hx
          · rcases hk with hk | hk
            · rw [hk] at h1; exact absurd h1 (by simp)
            · rw [hk] at h2; exact absurd h2 (by simp)
          · exact ⟨x, hx, h1, h2⟩
        unfold invoke
        split
        · rename_i hc
          exact hdeq _ (fun k _ hr => hkeep k (Or.inr hc) hr)
        · rename_i hc
          split
          · rename_i kk c hk
            refine doCall_linv cfg _ _ (hdeq _ (fun k _ hr => hkeep k (Or.inl ?_) hr)) hag2
            simp [isRun, hk]
          · rename_i i hk
            refine soRun_linv cfg i (hdeq _ (fun k hki hr => hkeep k (Or.inl ?_) hr)) hag2
            simp only [isRun, hk, beq_eq_false_iff_ne, ne_eq]
            exact fun e => hki e.symm

theorem schedule_go_linv (cs : List (Nat × Call α)) (k : Nat) (st : St α) (h : LInv st)
    (hc : ∀ i, st.acquired i = false) : LInv (schedule.go cs k st) ∧ ∀ i, (schedule.go cs k st).acquired i = false := by
  induction cs generalizing k st with
  | nil => exact ⟨h, hc⟩
  | cons c cs ih =>
    obtain ⟨t, c⟩ := c
    simp only [schedule.go]
    refine ih _ _ ?_ hc
    refine ⟨h.l1, ?_, ?_, ?_⟩
    · intro i _ hacq; rw [hc i] at hacq; exact absurd hacq (by simp)
    · intro i id hs
      have := h.l3 i id hs
      refine ⟨Nat.lt_succ_of_lt this.1, ?_⟩
      intro it hit hid
      rcases (mem_pqInsert _ _ _).mp hit with rfl | hit
      · simp at hid; omega
      · exact this.2 it hit hid
    · intro it hit
      rcases (mem_pqInsert _ _ _).mp hit with rfl | hit
      · simp
      · exact Nat.lt_succ_of_lt (h.l4 it hit)

theorem reach_linv {cfg : Cfg α} {calls : List (Nat × Call α)} {st : St α} (h : Reach cfg calls st) : LInv st := by
  induction h with
  | init =>
    refine (schedule_go_linv calls 0 {} ?_ (fun _ => rfl)).1
    exact ⟨fun _ _ h => absurd rfl h, fun _ _ h => by simp at h, fun _ _ h => by simp at h, fun _ h => by simp at h⟩
  | step _ ih => exact step_linv cfg ih

/-- **Quiescence.**  When `start()` has returned normally (nothing left to run, no exception escaped),
every ScheduledObserver that has not been disposed has an empty queue: everything queued for it has
been handed to its AutoDetachObserver, in order, exactly once. -/
theorem quiescent_drained {cfg : Cfg α} {calls : List (Nat × Call α)} {st : St α} (h : Reach cfg calls st)
    (hidle : st.agenda = [] ∧ st.pending = []) (hc : st.crashed = none) (i : Id) (hd : st.serDisposed i = false) :
    st.soQueue i = [] ∧ st.fed i = st.enq i := by
  have hL := reach_linv h
  have hI := reach_inv h
  have hf : st.faulted i = false := by
    cases hfi : st.faulted i with
    | false => rfl
    | true => exact absurd hc (hI.crashFault i hfi)
  have hq : st.soQueue i = [] := by
    cases hq : st.soQueue i with
    | nil => rfl
    | cons n rest =>
      exfalso
      rcases hL.l1 i id (by rw [hq]; simp) with h' | h'
      · rw [hf] at h'; exact absurd h' (by simp)
      · rcases hL.l2 i id h' with h'' | h'' | h'' | h''
        · rw [hf] at h''; exact absurd h'' (by simp)
        · rw [hd] at h''; exact absurd h'' (by simp)
        · obtain ⟨x, hx, _⟩ := h''
          rw [hidle.2] at hx; exact absurd hx (by simp)
        · rw [hidle.1] at h''; exact absurd h'' (by simp)
  refine ⟨hq, ?_⟩
  have := hI.fifo i hf
  rw [hq] at this
  simpa using this

end SubjReplay

import RxModel.StructCaptures
/-!
# The frame lemma behind C04 / C44

If the state shared by a family of instances is never written (`Framed`), what any one instance
emits under *any* interleaving of creations and actions of *all* instances is what it emits alone,
from the same shared state, under its own actions.
-/

namespace Struct.Frame

variable {G L A O : Type}

theorem lookup_update_same (m : List (Nat × L)) (i : Nat) (l : L) : lookup (update m i l) i = some l := by
  simp [update, lookup]

theorem lookup_update_other (m : List (Nat × L)) (i j : Nat) (l : L) (h : j ≠ i) :
    lookup (update m j l) i = lookup m i := by
  simp [update, lookup, h]

theorem outputsOf_append (i : Nat) (a b : List (Nat × O)) :
    outputsOf i (a ++ b) = outputsOf i a ++ outputsOf i b := by
  simp [outputsOf, List.filterMap_append]

theorem outputsOf_tag_same (i : Nat) (os : List O) : outputsOf i (os.map (fun o => (i, o))) = os := by
  induction os with
  | nil => rfl
  | cons o os ih => simp [outputsOf] at ih ⊢; exact ih

theorem outputsOf_tag_other (i j : Nat) (h : j ≠ i) (os : List O) :
    outputsOf i (os.map (fun o => (j, o))) = [] := by
  induction os with
  | nil => rfl
  | cons o os ih => simp [outputsOf, h] at ih ⊢

/-- **frame_local.** -/
theorem frame_local (s : Sys G L A O) (h : Framed s) (i : Nat) :
    ∀ (acts : List (Act A)) (g : G) (m : List (Nat × L)),
      outputsOf i (runG s g m acts) = runI s g (lookup m i) (restrict i acts) := by
  intro acts
  induction acts with
  | nil => intro g m; simp [runG, restrict, runI, outputsOf]
  | cons act rest ih =>
    intro g m
    cases act with
    | create j =>
      simp only [runG, restrict]
      rw [outputsOf_append, h.1 g, ih]
      by_cases hj : j = i
      · subst hj
        simp only [if_true, lookup_update_same, outputsOf_tag_same]
        cases lookup m j <;> simp [runI]
      · simp only [hj, if_false, lookup_update_other m i j _ hj, outputsOf_tag_other i j hj, List.nil_append]
    | act j a =>
      simp only [runG, restrict]
      cases hl : lookup m j with
      | none =>
        simp only []
        rw [ih]
        by_cases hj : j = i
        · subst hj; simp [hl, runI]
        · simp [hj]
      | some l =>
        simp only []
        rw [outputsOf_append, h.2 g l a, ih]
        by_cases hj : j = i
        · subst hj
          simp only [if_true, lookup_update_same, hl, outputsOf_tag_same, runI]
        · simp only [hj, if_false, lookup_update_other m i j _ hj, outputsOf_tag_other i j hj,
            List.nil_append]

/-- Two instances (of the same run or of two different runs, sequential or overlapping) that see
the same own actions emit the same outputs. -/
theorem frame_same (s : Sys G L A O) (h : Framed s) (i j : Nat) (acts acts' : List (Act A)) (g : G)
    (hv : restrict i acts = restrict j acts') :
    outputsOf i (runG s g [] acts) = outputsOf j (runG s g [] acts') := by
  rw [frame_local s h i, frame_local s h j, hv]; rfl

/-- lifting preserves the frame condition -/
theorem lift_framed (s : Sys G L A O) (h : Framed s) : Framed s.lift := by
  refine ⟨fun g => rfl, fun g m a => ?_⟩
  cases a with
  | create i => exact h.1 g
  | act i a =>
    simp only [Sys.lift, stepG]
    split
    · rfl
    · exact h.2 g _ a

end Struct.Frame

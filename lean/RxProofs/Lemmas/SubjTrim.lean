import RxModel.SubjReplay
/-!
# `_trim` leaves exactly the retained values

`Good cfg now r`: `r` respects the buffer size and every element's age at `now` is within the window.
`IsRetained cfg now all r`: `r` is the *longest* suffix of `all` that is `Good` — the property's
"last buffer_size values whose age is within the window" (for a time-sorted `all` the in-window values form
a suffix, so "longest good suffix" and "the last ≤ buffer_size in-window values" coincide).
-/

namespace SubjReplay
variable {α : Type}

/-- Times non-decreasing along the list (the clock is monotone). -/
def Sorted (l : List (Nat × α)) : Prop := l.Pairwise (fun a b => a.1 ≤ b.1)

def Good (cfg : Cfg α) (now : Nat) (r : List (Nat × α)) : Prop :=
  (∀ n, cfg.bufferSize = some n → r.length ≤ n) ∧ (∀ w, cfg.window = some w → ∀ x ∈ r, now - x.1 ≤ w)

def IsRetained (cfg : Cfg α) (now : Nat) (all r : List (Nat × α)) : Prop :=
  r <:+ all ∧ Good cfg now r ∧ ∀ r', r' <:+ all → Good cfg now r' → r' <:+ r

theorem Good.sublist {cfg : Cfg α} {now : Nat} {r r' : List (Nat × α)} (h : List.Sublist r' r) (hg : Good cfg now r) :
    Good cfg now r' :=
  ⟨fun n hn => Nat.le_trans h.length_le (hg.1 n hn), fun w hw x hx => hg.2 w hw x (h.subset hx)⟩

theorem Good.mono {cfg : Cfg α} {now now' : Nat} {r : List (Nat × α)} (h : now' ≤ now) (hg : Good cfg now r) :
    Good cfg now' r :=
  ⟨hg.1, fun w hw x hx => Nat.le_trans (Nat.sub_le_sub_right h _) (hg.2 w hw x hx)⟩

theorem Good.nil (cfg : Cfg α) (now : Nat) : Good cfg now ([] : List (Nat × α)) :=
  ⟨fun _ _ => Nat.zero_le _, fun _ _ _ hx => by simp at hx⟩

theorem suffix_antisymm {β : Type} {a b : List β} (h1 : a <:+ b) (h2 : b <:+ a) : a = b :=
  h1.eq_of_length_le h2.length_le

theorem IsRetained.unique {cfg : Cfg α} {now : Nat} {all r1 r2 : List (Nat × α)}
    (h1 : IsRetained cfg now all r1) (h2 : IsRetained cfg now all r2) : r1 = r2 :=
  suffix_antisymm (h2.2.2 r1 h1.1 h1.2.1) (h1.2.2 r2 h2.1 h2.2.1)

/-! ### the count loop -/

theorem trimCount_suffix (bs : Option Nat) (q : List (Nat × α)) : trimCount bs q <:+ q := by
  induction q with
  | nil => simp [trimCount]
  | cons x xs ih =>
    cases bs with
    | none => simp [trimCount]
    | some n =>
      simp only [trimCount]
      split
      · exact ih.trans (List.suffix_cons x xs)
      · exact List.suffix_refl _

theorem trimCount_length (n : Nat) (q : List (Nat × α)) : (trimCount (some n) q).length ≤ n := by
  induction q with
  | nil => simp [trimCount]
  | cons x xs ih =>
    simp only [trimCount]
    split
    · exact ih
    · omega

theorem trimCount_max (bs : Option Nat) (q r' : List (Nat × α)) (hs : r' <:+ q)
    (hl : ∀ n, bs = some n → r'.length ≤ n) : r' <:+ trimCount bs q := by
  induction q with
  | nil => simpa [trimCount] using hs
  | cons x xs ih =>
    cases bs with
    | none => simpa [trimCount] using hs
    | some n =>
      simp only [trimCount]
      split
      · rename_i hgt
        rcases List.suffix_cons_iff.mp hs with h | h
        · subst h
          have := hl n rfl
          omega
        · exact ih h
      · exact hs

/-! ### the age loop -/

theorem trimAge_suffix (w : Option Nat) (now : Nat) (q : List (Nat × α)) : trimAge w now q <:+ q := by
  induction q with
  | nil => simp [trimAge]
  | cons x xs ih =>
    cases w with
    | none => simp [trimAge]
    | some w' =>
      simp only [trimAge]
      split
      · exact ih.trans (List.suffix_cons x xs)
      · exact List.suffix_refl _

theorem trimAge_good (w' : Nat) (now : Nat) (q : List (Nat × α)) (hs : Sorted q) :
    ∀ x ∈ trimAge (some w') now q, now - x.1 ≤ w' := by
  induction q with
  | nil => simp [trimAge]
  | cons x xs ih =>
    simp only [trimAge]
    split
    · exact ih (List.Pairwise.of_cons hs)
    · rename_i hle
      intro y hy
      rcases List.mem_cons.mp hy with rfl | hy
      · omega
      · have := List.rel_of_pairwise_cons hs hy
        omega

theorem trimAge_max (w : Option Nat) (now : Nat) (q r' : List (Nat × α)) (hs : r' <:+ q)
    (hg : ∀ w', w = some w' → ∀ x ∈ r', now - x.1 ≤ w') : r' <:+ trimAge w now q := by
  induction q with
  | nil => simpa [trimAge] using hs
  | cons x xs ih =>
    cases w with
    | none => simpa [trimAge] using hs
    | some w' =>
      simp only [trimAge]
      split
      · rename_i hgt
        rcases List.suffix_cons_iff.mp hs with h | h
        · subst h
          have := hg w' rfl x (by simp)
          omega
        · exact ih h
      · exact hs

theorem Sorted.suffix {q r : List (Nat × α)} (hs : Sorted q) (h : r <:+ q) : Sorted r :=
  List.Pairwise.sublist h.sublist hs

/-- **`_trim now` computes the retained values** of whatever time-sorted list it is applied to. -/
theorem trim_isRetained (cfg : Cfg α) (now : Nat) (q : List (Nat × α)) (hs : Sorted q) :
    IsRetained cfg now q (trim cfg now q) := by
  have h1 : trimCount cfg.bufferSize q <:+ q := trimCount_suffix _ _
  have h2 : trim cfg now q <:+ trimCount cfg.bufferSize q := trimAge_suffix _ _ _
  refine ⟨h2.trans h1, ⟨?_, ?_⟩, ?_⟩
  · intro n hn
    have := trimCount_length n q
    rw [hn] at h2
    exact Nat.le_trans h2.length_le this
  · intro w hw x hx
    unfold trim at hx
    rw [hw] at hx
    exact trimAge_good w now _ (hs.suffix h1) x hx
  · intro r' hr' hg
    exact trimAge_max _ _ _ _ (trimCount_max _ _ _ hr' hg.1) hg.2

/-- Trimming an already (earlier) trimmed queue again later gives what trimming the whole history
once would give: values dropped earlier stay dropped because ages only grow. -/
theorem trim_of_retained {cfg : Cfg α} {now now' : Nat} {all q : List (Nat × α)} (hs : Sorted all)
    (hq : IsRetained cfg now' all q) (hn : now' ≤ now) : IsRetained cfg now all (trim cfg now q) := by
  have hsq : Sorted q := hs.suffix hq.1
  have ht := trim_isRetained cfg now q hsq
  refine ⟨ht.1.trans hq.1, ht.2.1, ?_⟩
  intro r' hr' hg
  exact ht.2.2 r' (hq.2.2 r' hr' (hg.mono hn)) hg

/-- Same for `queue.append((now, v)); _trim(now)`. -/
theorem trim_append_of_retained {cfg : Cfg α} {now now' : Nat} {all q : List (Nat × α)} (x : Nat × α)
    (hs : Sorted (all ++ [x])) (hq : IsRetained cfg now' all q) (hn : now' ≤ now) :
    IsRetained cfg now (all ++ [x]) (trim cfg now (q ++ [x])) := by
  have hqx : q ++ [x] <:+ all ++ [x] := by
    obtain ⟨p, hp⟩ := hq.1
    exact ⟨p, by rw [← hp]; simp⟩
  have hsq : Sorted (q ++ [x]) := hs.suffix hqx
  have ht := trim_isRetained cfg now (q ++ [x]) hsq
  refine ⟨ht.1.trans hqx, ht.2.1, ?_⟩
  intro r' hr' hg
  apply ht.2.2 r' ?_ hg
  rcases List.eq_nil_or_concat r' with rfl | ⟨r0, y, rfl⟩
  · exact List.nil_suffix
  · rw [List.concat_eq_append] at hr' hg ⊢
    obtain ⟨p, hp⟩ := hr'
    have hy : y = x := by
      have := congrArg List.getLast? hp
      simpa using this
    subst hy
    have hr0 : r0 <:+ all := ⟨p, by
      have : (p ++ r0) ++ [y] = all ++ [y] := by rw [← hp]; simp
      exact List.append_cancel_right this⟩
    have hg0 : Good cfg now' r0 := (hg.sublist (List.sublist_append_left r0 [y])).mono hn
    obtain ⟨p', hp'⟩ := hq.2.2 r0 hr0 hg0
    exact ⟨p', by rw [← hp']; simp⟩

end SubjReplay

import RxProofs.Lemmas.VtsPeriodic3
/-! Periodic model, part 4: what one successful tick does (any number of tasks, any in-call sleep), and the
closed form of a single task with arbitrary in-call sleeps. -/

namespace Per
open Vts
variable {σ : Type}

/-- a successful call of a live task: the invocation is logged at the current clock, the clock moves by the
in-call sleep, and the next tick is queued — live, with the returned state — for `(clock at the start of the
call) + period`: the drift term cancels the sleep exactly, whatever its length -/
theorem runTick_ok (handler : Err → Bool) (f : Nat → σ → Tick σ) (s : St σ) (pid : Nat) (t : Task) (st st' : σ)
    (hg : getTask s pid = some t) (hl : t.disposed = false) (hcf : (t.catch_ && t.failed) = false)
    (hok : (f pid st).next = .ok st') (hnd : (f pid st).dispose = false) :
    runTick handler f s pid t st =
      (enqueue { s with log := s.log ++ [{ pid, at_ := s.clock, st }], clock := s.clock + (f pid st).sleep }
        { due := s.clock + t.period, kind := .tick pid st', cancelled := false }, none) := by
  have hg' : (s.tasks.find? (·.1 == pid)).map (·.2) = some t := hg
  simp only [runTick, hl, hcf, hok, hnd, getTask, hg']
  simp only [Bool.false_eq_true, if_false]
  congr 3
  · omega
  · rw [hg']; simp [hl]

/-- the single pending item is the live tick of task `pid`; the clock may already be past its due time -/
structure SoloG (pid : Nat) (t : Task) (s : St σ) (d : Int) (st : σ) : Prop where
  en : s.enabled = true
  q : ∃ c, s.queue.items = [({ due := d, kind := .tick pid st, cancelled := false }, c)]
  task : getTask s pid = some t

/-- the invocation sequence of one task whose call with state `st` returns `F st` after sleeping `sl st`:
run at `now = max clock due`; afterwards the clock is `now + sl st` and the next tick is due at `now + p` -/
def idealG (pid : Nat) (T p : Int) (F : σ → σ) (sl : σ → Nat) : Nat → Int → Int → σ → List (Ran σ)
  | 0, _, _, _ => []
  | n + 1, clock, d, st =>
    if d > T then []
    else
      { pid, at_ := if d > clock then d else clock, st } ::
        idealG pid T p F sl n ((if d > clock then d else clock) + sl st) ((if d > clock then d else clock) + p) (F st)

theorem soloG_iter (handler : Err → Bool) (f : Nat → σ → Tick σ) (T : Int) (pid : Nat) (t : Task) (F : σ → σ)
    (hp : 1 ≤ t.period) (hlive : t.disposed = false) (hnf : t.failed = false)
    (hf : ∀ st, (f pid st).next = .ok (F st) ∧ (f pid st).dispose = false)
    (s : St σ) (d : Int) (st : σ) (hs : SoloG pid t s d st) :
    (d > T → iter handler f T s = .exit s) ∧
    (d ≤ T → ∃ s2, iter handler f T s = .next s2 ∧
      SoloG pid t s2 ((if d > s.clock then d else s.clock) + t.period) (F st) ∧
      s2.clock = (if d > s.clock then d else s.clock) + (f pid st).sleep ∧
      s2.log = s.log ++ [{ pid, at_ := if d > s.clock then d else s.clock, st }] ∧ s2.hlog = s.hlog) := by
  obtain ⟨hen, ⟨c, hq⟩, htask⟩ := hs
  have hdq : s.queue.dequeue? Item.due = some (({ due := d, kind := .tick pid st, cancelled := false } : Item σ),
      { items := [], count := PQ.MIN_COUNT }) := by
    simp [PQ.dequeue?, hq, popMinBy]
  obtain ⟨hf1, hf2⟩ := hf st
  refine ⟨fun hgt => ?_, fun hle => ?_⟩
  · simp [iter, hen, hdq, hgt]
  · have hi := iter_tick handler f T s _ _ pid st t hen hdq hle rfl rfl htask hp
    have hcf : (t.catch_ && t.failed) = false := by simp [hnf]
    have hrt := runTick_ok handler f
      { s with clock := if d > s.clock then d else s.clock, queue := ({ items := [], count := PQ.MIN_COUNT } : PQ (Item σ)) }
      pid t st (F st) htask hlive hcf hf1 hf2
    simp only at hi
    rw [hrt] at hi
    refine ⟨_, hi, ⟨hen, ⟨PQ.MIN_COUNT, ?_⟩, htask⟩, rfl, rfl, rfl⟩
    simp [enqueue, PQ.enqueue]

theorem soloG_loop (handler : Err → Bool) (f : Nat → σ → Tick σ) (T : Int) (pid : Nat) (t : Task) (F : σ → σ)
    (hp : 1 ≤ t.period) (hlive : t.disposed = false) (hnf : t.failed = false)
    (hf : ∀ st, (f pid st).next = .ok (F st) ∧ (f pid st).dispose = false) :
    ∀ (n : Nat) (s : St σ) (d : Int) (st : σ), SoloG pid t s d st →
      (loopFuel handler f T n s).1.log =
        s.log ++ idealG pid T t.period F (fun x => (f pid x).sleep) n s.clock d st ∧
      (loopFuel handler f T n s).1.hlog = s.hlog := by
  intro n
  induction n with
  | zero => intro s d st _; simp [loopFuel, idealG]
  | succ n ih =>
    intro s d st hs
    by_cases hgt : d > T
    · have := (soloG_iter handler f T pid t F hp hlive hnf hf s d st hs).1 hgt
      simp [loopFuel, this, idealG, hgt]
    · obtain ⟨s2, hi, hs2, hc2, hl2, hh2⟩ := (soloG_iter handler f T pid t F hp hlive hnf hf s d st hs).2 (by omega)
      have := ih s2 _ (F st) hs2
      simp only [loopFuel, hi, idealG, hgt, if_false]
      rw [this.1, this.2, hl2, hh2, hc2]
      simp

/-- consecutive ideal invocations: the state is threaded and the next call starts `max period (time slept in
this call)` after this one started; the first is at `max clock due` -/
theorem idealG_chain (pid : Nat) (T p : Int) (F : σ → σ) (sl : σ → Nat) (hp : 1 ≤ p) :
    ∀ (n : Nat) (clock d : Int) (st : σ),
      (∀ r, (idealG pid T p F sl n clock d st)[0]? = some r → r.st = st ∧ r.at_ = (if d > clock then d else clock)) ∧
      (∀ (i : Nat) (a b : Ran σ), (idealG pid T p F sl n clock d st)[i]? = some a →
        (idealG pid T p F sl n clock d st)[i + 1]? = some b →
        b.st = F a.st ∧ b.at_ = a.at_ + (if (sl a.st : Int) > p then (sl a.st : Int) else p)) := by
  intro n
  induction n with
  | zero => intro clock d st; simp [idealG]
  | succ n ih =>
    intro clock d st
    simp only [idealG]
    by_cases hgt : d > T
    · simp [hgt]
    · simp only [hgt, if_false]
      have ih' := ih ((if d > clock then d else clock) + sl st) ((if d > clock then d else clock) + p) (F st)
      refine ⟨by intro r hr; simp at hr; subst hr; exact ⟨rfl, rfl⟩, ?_⟩
      intro i a b ha hb
      cases i with
      | zero =>
        simp at ha; subst ha
        simp only [List.getElem?_cons_succ] at hb
        obtain ⟨h1, h2⟩ := ih'.1 b hb
        refine ⟨h1, ?_⟩
        rw [h2]; simp only; split <;> split <;> omega
      | succ i =>
        simp only [List.getElem?_cons_succ] at ha hb
        exact ih'.2 i a b ha hb

end Per

import RxModel.PureTimeConv
/-! Helper lemmas for C36 (time conversions): half-even rounding, `modf`, monotonicity of the
float -> microseconds leg for any monotone rounding, and the error budget of the float round trip. -/
open Pure.TimeConv
namespace Pure.TimeConv

/-- what the theorems assume of the double rounding: monotone, exact on integers below 2^53,
relative error at most 2^-53 (IEEE-754 round-to-nearest, normal range) -/
structure Rounding (rn : Rat → Rat) : Prop where
  mono : ∀ x y, x ≤ y → rn x ≤ rn y
  fixInt : ∀ k : Int, -9007199254740992 ≤ k → k ≤ 9007199254740992 → rn (k : Rat) = (k : Rat)
  errPos : ∀ x, 0 ≤ x → x - x / 9007199254740992 ≤ rn x ∧ rn x ≤ x + x / 9007199254740992
  errNeg : ∀ x, x ≤ 0 → x + x / 9007199254740992 ≤ rn x ∧ rn x ≤ x - x / 9007199254740992

theorem int_le_of_lt_add_one {a b : Int} (h : (a : Rat) < (b : Rat) + 1) : a ≤ b := by
  have : (a : Rat) < ((b + 1 : Int) : Rat) := by simpa using h
  have := Rat.intCast_lt_intCast.1 this
  omega

theorem floor_bounds (x : Rat) : (x.floor : Rat) ≤ x ∧ x < (x.floor : Rat) + 1 := by
  refine ⟨Rat.floor_le x, ?_⟩
  have := Rat.lt_floor_add_one x
  simpa using this

/-- |rhe x − x| ≤ 1/2 -/
theorem rhe_near (x : Rat) : x - 1 / 2 ≤ (rhe x : Rat) ∧ (rhe x : Rat) ≤ x + 1 / 2 := by
  obtain ⟨h1, h2⟩ := floor_bounds x
  simp only [rhe]
  split
  · constructor <;> grind
  · split
    · constructor <;> simp <;> grind
    · split
      · constructor <;> grind
      · constructor <;> simp <;> grind

theorem rhe_int (k : Int) : rhe (k : Rat) = k := by
  have h : (k : Rat) - (k : Rat) < 1 / 2 := by grind
  simp only [rhe, Rat.floor_intCast, h, if_true]

theorem rhe_mono {x y : Rat} (h : x ≤ y) : rhe x ≤ rhe y := by
  have hf := Rat.floor_monotone h
  obtain ⟨hx1, hx2⟩ := floor_bounds x
  obtain ⟨hy1, hy2⟩ := floor_bounds y
  rcases Int.lt_or_eq_of_le hf with hlt | heq
  · -- different floors: rhe x ≤ floor x + 1 ≤ floor y ≤ rhe y
    have a : rhe x ≤ x.floor + 1 := by simp only [rhe]; repeat' split <;> omega
    have b : y.floor ≤ rhe y := by simp only [rhe]; repeat' split <;> omega
    omega
  · simp only [rhe, heq]
    have hr : x - (y.floor : Rat) ≤ y - (y.floor : Rat) := by grind
    rw [← heq] at hr ⊢
    simp only [heq] at hr ⊢
    repeat' split
    all_goals first | omega | (exfalso; grind)

theorem trunc_nonneg {x : Rat} (h : 0 ≤ x) : (trunc x : Rat) ≤ x ∧ x < (trunc x : Rat) + 1 ∧ 0 ≤ trunc x := by
  obtain ⟨h1, h2⟩ := floor_bounds x
  simp only [trunc, h, if_true]
  refine ⟨h1, h2, ?_⟩
  exact Rat.le_floor_iff.2 (by simpa using h)

theorem trunc_neg {x : Rat} (h : x < 0) : x ≤ (trunc x : Rat) ∧ (trunc x : Rat) < x + 1 ∧ trunc x ≤ 0 := by
  obtain ⟨h1, h2⟩ := floor_bounds (-x)
  have hn : ¬ (0 ≤ x) := by grind
  simp only [trunc, hn, if_false]
  have h0 : (0 : Int) ≤ (-x).floor := Rat.le_floor_iff.2 (by simp; grind)
  refine ⟨?_, ?_, by omega⟩
  · simp only [Rat.intCast_neg]; grind
  · simp only [Rat.intCast_neg]; grind

theorem trunc_mono {x y : Rat} (h : x ≤ y) : trunc x ≤ trunc y := by
  by_cases hx : 0 ≤ x
  · have hy : 0 ≤ y := by grind
    simp only [trunc, hx, hy, if_true]
    exact Rat.floor_monotone h
  · have hx' : x < 0 := by grind
    obtain ⟨a1, a2, a3⟩ := trunc_neg hx'
    by_cases hy : 0 ≤ y
    · obtain ⟨b1, b2, b3⟩ := trunc_nonneg hy
      omega
    · have hy' : y < 0 := by grind
      have : (-y).floor ≤ (-x).floor := Rat.floor_monotone (by grind)
      simp only [trunc, hx, hy, if_false]
      omega

/-- the rounded fractional microseconds -/
def fracUs (rn : Rat → Rat) (x : Rat) : Int := rhe (rn ((x - (trunc x : Rat)) * e6))

theorem usOfFloat_eq (rn : Rat → Rat) (x : Rat) : usOfFloat rn x = trunc x * 1000000 + fracUs rn x := rfl

theorem fracUs_nonneg {rn} (R : Rounding rn) {x : Rat} (h : 0 ≤ x) : 0 ≤ fracUs rn x ∧ fracUs rn x ≤ 1000000 := by
  obtain ⟨a1, a2, _⟩ := trunc_nonneg h
  have h0 : rn ((0 : Int) : Rat) = ((0 : Int) : Rat) := R.fixInt 0 (by decide) (by decide)
  have h6 : rn ((1000000 : Int) : Rat) = ((1000000 : Int) : Rat) := R.fixInt 1000000 (by decide) (by decide)
  have lo : ((0 : Int) : Rat) ≤ (x - (trunc x : Rat)) * e6 := by simp [e6]; grind
  have hi : (x - (trunc x : Rat)) * e6 ≤ ((1000000 : Int) : Rat) := by simp [e6]; grind
  have l1 := rhe_mono (R.mono _ _ lo)
  have l2 := rhe_mono (R.mono _ _ hi)
  rw [h0, rhe_int] at l1
  rw [h6, rhe_int] at l2
  exact ⟨l1, l2⟩

theorem fracUs_neg {rn} (R : Rounding rn) {x : Rat} (h : x < 0) : -1000000 ≤ fracUs rn x ∧ fracUs rn x ≤ 0 := by
  obtain ⟨a1, a2, _⟩ := trunc_neg h
  have h0 : rn ((0 : Int) : Rat) = ((0 : Int) : Rat) := R.fixInt 0 (by decide) (by decide)
  have h6 : rn ((-1000000 : Int) : Rat) = ((-1000000 : Int) : Rat) := R.fixInt (-1000000) (by decide) (by decide)
  have hi : (x - (trunc x : Rat)) * e6 ≤ ((0 : Int) : Rat) := by simp [e6]; grind
  have lo : ((-1000000 : Int) : Rat) ≤ (x - (trunc x : Rat)) * e6 := by simp [e6]; grind
  have l1 := rhe_mono (R.mono _ _ lo)
  have l2 := rhe_mono (R.mono _ _ hi)
  rw [h6, rhe_int] at l1
  rw [h0, rhe_int] at l2
  exact ⟨l1, l2⟩

theorem fracUs_mono_same_trunc {rn} (R : Rounding rn) {x y : Rat} (h : x ≤ y) (ht : trunc x = trunc y) :
    fracUs rn x ≤ fracUs rn y := by
  simp only [fracUs, ht]
  apply rhe_mono
  apply R.mono
  simp [e6]; grind

theorem usOfFloat_mono {rn} (R : Rounding rn) {x y : Rat} (h : x ≤ y) : usOfFloat rn x ≤ usOfFloat rn y := by
  rw [usOfFloat_eq, usOfFloat_eq]
  have ht := trunc_mono h
  rcases Int.lt_or_eq_of_le ht with hlt | heq
  · by_cases hx : 0 ≤ x
    · have hy : 0 ≤ y := by grind
      have := fracUs_nonneg R hx; have := fracUs_nonneg R hy; omega
    · have hx' : x < 0 := by grind
      have fx := fracUs_neg R hx'
      have tx := (trunc_neg hx').2.2
      by_cases hy : 0 ≤ y
      · have fy := fracUs_nonneg R hy; have ty := (trunc_nonneg hy).2.2; omega
      · have hy' : y < 0 := by grind
        have fy := fracUs_neg R hy'; omega
  · have := fracUs_mono_same_trunc R h heq
    omega

theorem fromTimestamp_total (rn : Rat → Rat) (x : Rat) :
    (fromTimestamp rn x).1 * 1000000 + (fromTimestamp rn x).2 = usOfFloat rn x := by
  simp only [fromTimestamp, usOfFloat]
  split
  · simp only; omega
  · split <;> simp only <;> omega

theorem fromTimestamp_field {rn} (R : Rounding rn) (x : Rat) :
    0 ≤ (fromTimestamp rn x).2 ∧ (fromTimestamp rn x).2 < 1000000 := by
  have key : fracUs rn x = rhe (rn ((x - (trunc x : Rat)) * e6)) := rfl
  by_cases hx : 0 ≤ x
  · have := fracUs_nonneg R hx
    simp only [fromTimestamp]
    rw [← key]
    split
    · simp only; omega
    · split <;> simp only <;> omega
  · have hx' : x < 0 := by grind
    have := fracUs_neg R hx'
    simp only [fromTimestamp]
    rw [← key]
    split
    · simp only; omega
    · split <;> simp only <;> omega

/-- error budget: a double holds every microsecond count below 2^52 - 2^20 -/
theorem float_roundtrip {rn} (R : Rounding rn) (us : Int)
    (hlo : -(4503599627370496 - 1048576) ≤ us) (hhi : us ≤ 4503599627370496 - 1048576) :
    usOfFloat rn (rn ((us : Rat) / e6)) = us := by
  have hlo' : (-4503599626321920 : Rat) ≤ (us : Rat) := by
    have : ((-4503599626321920 : Int) : Rat) ≤ (us : Rat) := Rat.intCast_le_intCast.2 (by omega)
    simpa using this
  have hhi' : (us : Rat) ≤ (4503599626321920 : Rat) := by
    have : (us : Rat) ≤ ((4503599626321920 : Int) : Rat) := Rat.intCast_le_intCast.2 (by omega)
    simpa using this
  simp only [usOfFloat, e6]
  generalize hq : (us : Rat) / 1000000 = q
  have hq' : q * 1000000 = (us : Rat) := by grind
  generalize hx : rn q = x
  -- |x·1e6 − us| ≤ |us| / 2^53 < 1/2 − 2^-33
  have hxerr : (us : Rat) - 1 / 2 + 1 / 8589934592 ≤ x * 1000000 ∧ x * 1000000 ≤ (us : Rat) + 1 / 2 - 1 / 8589934592 := by
    by_cases h0 : 0 ≤ q
    · have := R.errPos q h0; rw [hx] at this
      constructor <;> grind
    · have := R.errNeg q (by grind); rw [hx] at this
      constructor <;> grind
  have hfr : -1 < x - (trunc x : Rat) ∧ x - (trunc x : Rat) < 1 := by
    by_cases h0 : 0 ≤ x
    · have := trunc_nonneg h0; constructor <;> grind
    · have := trunc_neg (x := x) (by grind); constructor <;> grind
  generalize hf : (x - (trunc x : Rat)) * 1000000 = f at *
  have hf' : -1000000 < f ∧ f < 1000000 := by constructor <;> grind
  -- y = rn (fr · 1e6), |y − fr·1e6| ≤ 1e6 / 2^53 < 2^-33
  have hy : f - 1 / 8589934592 < rn f ∧ rn f < f + 1 / 8589934592 := by
    by_cases h0 : 0 ≤ f
    · have := R.errPos f h0; constructor <;> grind
    · have := R.errNeg f (by grind); constructor <;> grind
  have hn := rhe_near (rn f)
  generalize rhe (rn f) = n at hn ⊢
  generalize rn f = y at hn hy
  have hcast : ((trunc x * 1000000 + n : Int) : Rat) = (trunc x : Rat) * 1000000 + (n : Rat) := by
    simp
  have h1 : ((trunc x * 1000000 + n : Int) : Rat) < (us : Rat) + 1 := by rw [hcast]; grind
  have h2 : (us : Rat) < ((trunc x * 1000000 + n : Int) : Rat) + 1 := by rw [hcast]; grind
  have a := int_le_of_lt_add_one h1
  have b := int_le_of_lt_add_one h2
  omega

end Pure.TimeConv

import RxProofs.Lemmas.AggSeqEq
/-!
# `sequence_equal` with an arbitrary (asymmetric) comparer: what the code computes

The code always calls `comparer(queued value, arriving value)`.  Tag every event with its position in the trace; then the
verdict on a pair is `c a b` with `a` the element that **arrived first**.  On tagged values this is a *symmetric* comparer
(`orient c`), so the symmetric theory applies to the tagged trace; a simulation shows the run on the raw trace with `c` is
the run on the tagged trace with `orient c`.
-/
namespace Agg
variable {α : Type}

/-- verdict on two position-tagged values: the earlier one is the comparer's first argument -/
def orient (c : α → α → Bool) (p q : Nat × α) : Bool :=
  if p.1 < q.1 then c p.2 q.2 else if q.1 < p.1 then c q.2 p.2 else (c p.2 q.2 && c q.2 p.2)

theorem orient_symm (c : α → α → Bool) (p q : Nat × α) : orient c p q = orient c q p := by
  unfold orient
  by_cases h1 : p.1 < q.1
  · have : ¬ q.1 < p.1 := by omega
    simp [h1, this]
  · by_cases h2 : q.1 < p.1
    · simp [h1, h2]
    · simp [h1, h2, Bool.and_comm]

/-- tag the events with their positions, starting at `n` -/
def tagFrom : Nat → List (Side × Notif α) → List (Side × Notif (Nat × α))
  | _, [] => []
  | n, (sd, x) :: tr => (sd, x.map (fun v => (n, v))) :: tagFrom (n + 1) tr

def untagSt (s : SeqSt (Nat × α)) : SeqSt α :=
  { donel := s.donel, doner := s.doner, ql := s.ql.map (·.2), qr := s.qr.map (·.2), decided := s.decided }
def untagRun (st : SeqRun (Nat × α)) : SeqRun α := { upL := st.upL, upR := st.upR, s := untagSt st.s, down := st.down }

theorem orient_older (c : α → α → Bool) (i n : Nat) (v x : α) (h : i < n) : orient c (i, v) (n, x) = c v x := by
  simp [orient, h]

/-- handler level: `c` on raw values = `orient c` on tagged values, as long as everything queued is older than the arriving
event; the queues only lose their head or gain the arriving element -/
theorem seqHandle_sim (c : α → α → Bool) (n : Nat) (s : SeqSt (Nat × α)) (sd : Side) (x : Notif α)
    (hold : ∀ q ∈ s.ql ++ s.qr, q.1 < n) :
    (seqHandle (fun a b => .ok (c a b)) (untagSt s) sd x).calls
        = (seqHandle (fun a b => .ok (orient c a b)) s sd (x.map (fun v => (n, v)))).calls
    ∧ (seqHandle (fun a b => .ok (c a b)) (untagSt s) sd x).st
        = untagSt (seqHandle (fun a b => .ok (orient c a b)) s sd (x.map (fun v => (n, v)))).st
    ∧ (seqHandle (fun a b => .ok (c a b)) (untagSt s) sd x).esc = (seqHandle (fun a b => .ok (orient c a b)) s sd (x.map (fun v => (n, v)))).esc
    ∧ ∀ q ∈ (seqHandle (fun a b => .ok (orient c a b)) s sd (x.map (fun v => (n, v)))).st.ql
            ++ (seqHandle (fun a b => .ok (orient c a b)) s sd (x.map (fun v => (n, v)))).st.qr, q.1 < n + 1 := by
  obtain ⟨dl, dr, ql, qr, dec⟩ := s
  simp only at hold
  have hold' : ∀ q ∈ ql ++ qr, q.1 < n + 1 := fun q h => Nat.lt_succ_of_lt (hold q h)
  cases dec with
  | true => exact ⟨rfl, rfl, rfl, hold'⟩
  | false =>
  have hU : ∀ (cmp : α → α → Except Err Bool) (s : SeqSt α) sd x, s.decided = false → seqHandle cmp s sd x = seqHandleU cmp s sd x := by
    intro cmp s sd x h; simp [seqHandle, h]
  have hU' : ∀ (cmp : (Nat × α) → (Nat × α) → Except Err Bool) (s : SeqSt (Nat × α)) sd x, s.decided = false →
      seqHandle cmp s sd x = seqHandleU cmp s sd x := by
    intro cmp s sd x h; simp [seqHandle, h]
  rw [hU _ _ _ _ rfl, hU' _ _ _ _ rfl]
  cases sd with
  | L =>
    cases x with
    | error e => exact ⟨rfl, rfl, rfl, hold'⟩
    | completed =>
      refine ⟨?_, ?_, ?_, ?_⟩
      · cases ql <;> cases qr <;> cases dr <;> simp [seqHandleU, emitD, untagSt, Notif.map]
      · cases ql <;> cases qr <;> cases dr <;> simp [seqHandleU, emitD, untagSt, Notif.map]
      · cases ql <;> cases qr <;> cases dr <;> simp [seqHandleU, emitD, untagSt, Notif.map]
      · cases ql <;> cases qr <;> cases dr <;> simpa [seqHandleU, emitD, Notif.map] using hold'
    | next v =>
      cases qr with
      | cons p qr' =>
        obtain ⟨i, w⟩ := p
        have hi : i < n := hold (i, w) (by simp)
        have hq : ∀ q ∈ ql ++ qr', q.1 < n + 1 := fun q h => hold' q (by
          rcases List.mem_append.1 h with h | h
          · exact List.mem_append_left _ h
          · exact List.mem_append_right _ (List.mem_cons_of_mem _ h))
        refine ⟨?_, ?_, ?_, ?_⟩
        · simp only [seqHandleU, emitD, untagSt, Notif.map, List.map_cons, orient_older c i n w v hi]
          cases c w v <;> rfl
        · simp only [seqHandleU, emitD, untagSt, Notif.map, List.map_cons, orient_older c i n w v hi]
          cases c w v <;> rfl
        · simp only [seqHandleU, emitD, untagSt, Notif.map, List.map_cons, orient_older c i n w v hi]
          cases c w v <;> rfl
        · simp only [seqHandleU, emitD, Notif.map, orient_older c i n w v hi]
          cases c w v <;> exact hq
      | nil =>
        cases dr with
        | true => exact ⟨rfl, rfl, rfl, hold'⟩
        | false =>
          refine ⟨rfl, by simp [seqHandleU, emitD, untagSt, Notif.map], rfl, ?_⟩
          intro q hq
          simp only [seqHandleU, emitD, Notif.map, List.append_nil, List.mem_append, List.mem_singleton, Bool.false_eq_true, if_false] at hq
          rcases hq with hq | hq
          · exact hold' q (List.mem_append_left _ hq)
          · subst hq; exact Nat.lt_succ_self n
  | R =>
    cases x with
    | error e => exact ⟨rfl, rfl, rfl, hold'⟩
    | completed =>
      refine ⟨?_, ?_, ?_, ?_⟩
      · cases ql <;> cases qr <;> cases dl <;> simp [seqHandleU, emitD, untagSt, Notif.map]
      · cases ql <;> cases qr <;> cases dl <;> simp [seqHandleU, emitD, untagSt, Notif.map]
      · cases ql <;> cases qr <;> cases dl <;> simp [seqHandleU, emitD, untagSt, Notif.map]
      · cases ql <;> cases qr <;> cases dl <;> simpa [seqHandleU, emitD, Notif.map] using hold'
    | next v =>
      cases ql with
      | cons p ql' =>
        obtain ⟨i, w⟩ := p
        have hi : i < n := hold (i, w) (by simp)
        have hq : ∀ q ∈ ql' ++ qr, q.1 < n + 1 := fun q h => hold' q (by
          rcases List.mem_append.1 h with h | h
          · exact List.mem_append_left _ (List.mem_cons_of_mem _ h)
          · exact List.mem_append_right _ h)
        refine ⟨?_, ?_, ?_, ?_⟩
        · simp only [seqHandleU, emitD, untagSt, Notif.map, List.map_cons, orient_older c i n w v hi]
          cases c w v <;> rfl
        · simp only [seqHandleU, emitD, untagSt, Notif.map, List.map_cons, orient_older c i n w v hi]
          cases c w v <;> rfl
        · simp only [seqHandleU, emitD, untagSt, Notif.map, List.map_cons, orient_older c i n w v hi]
          cases c w v <;> rfl
        · simp only [seqHandleU, emitD, Notif.map, orient_older c i n w v hi]
          cases c w v <;> exact hq
      | nil =>
        cases dl with
        | true => exact ⟨rfl, rfl, rfl, hold'⟩
        | false =>
          refine ⟨rfl, by simp [seqHandleU, emitD, untagSt, Notif.map], rfl, ?_⟩
          intro q hq
          simp only [seqHandleU, emitD, Notif.map, List.nil_append, List.mem_append, List.mem_singleton, Bool.false_eq_true, if_false] at hq
          rcases hq with hq | hq
          · exact hold' q (by simpa using hq)
          · subst hq; exact Nat.lt_succ_self n

theorem isTerminal_map {β γ} (f : β → γ) (x : Notif β) : (x.map f).isTerminal = x.isTerminal := by cases x <;> rfl

/-- the raw run with `c` is the tagged run with `orient c` -/
theorem seqOutFrom_sim (c : α → α → Bool) (lag : Bool) (tr : List (Side × Notif α)) (n : Nat) (st : SeqRun (Nat × α))
    (hold : ∀ q ∈ st.s.ql ++ st.s.qr, q.1 < n) :
    seqOutFrom (fun a b => .ok (c a b)) lag (untagRun st) tr
      = seqOutFrom (fun a b => .ok (orient c a b)) lag st (tagFrom n tr) := by
  induction tr generalizing n st with
  | nil => rfl
  | cons ev tr ih =>
    obtain ⟨sd, x⟩ := ev
    simp only [tagFrom, seqOutFrom_cons]
    have hs := seqHandle_sim c n st.s sd x hold
    have hup : (untagRun st).up sd = st.up sd := by cases sd <;> rfl
    by_cases hu : st.up sd = true
    · have e1 : seqStep (fun a b => .ok (c a b)) lag (untagRun st) (sd, x) = ⟨untagRun st, [], none⟩ := by
        unfold seqStep; simp [hup, hu]
      have e2 : seqStep (fun a b => .ok (orient c a b)) lag st (sd, x.map (fun v => (n, v))) = ⟨st, [], none⟩ := by
        unfold seqStep; simp [hu]
      rw [e1, e2]
      exact congrArg _ (ih (n + 1) st (fun q h => Nat.lt_succ_of_lt (hold q h)))
    · have e1 : (seqStep (fun a b => .ok (c a b)) lag (untagRun st) (sd, x)).out
          = (seqStep (fun a b => .ok (orient c a b)) lag st (sd, x.map (fun v => (n, v)))).out := by
        unfold seqStep; simp only [hup, hu, Bool.false_eq_true, if_false]
        show (deliver st.down (seqHandle _ (untagSt st.s) sd x).calls).2 = _
        rw [hs.1]
      have e2 : (seqStep (fun a b => .ok (c a b)) lag (untagRun st) (sd, x)).st
          = untagRun (seqStep (fun a b => .ok (orient c a b)) lag st (sd, x.map (fun v => (n, v)))).st := by
        unfold seqStep; simp only [hup, hu, Bool.false_eq_true, if_false]
        show SeqRun.mk _ _ _ _ = untagRun (SeqRun.mk _ _ _ _)
        simp only [untagRun, isTerminal_map]
        rw [hs.1, hs.2.1]
      rw [e1, e2]
      congr 1
      apply ih (n + 1)
      unfold seqStep; simp only [hu, Bool.false_eq_true, if_false]
      exact hs.2.2.2

theorem tagFrom_noerr (n : Nat) (tr : List (Side × Notif α)) (hne : ∀ ev ∈ tr, ∀ e, ev.2 ≠ .error e) :
    ∀ ev ∈ tagFrom n tr, ∀ e, ev.2 ≠ .error e := by
  induction tr generalizing n with
  | nil => intro ev h; cases h
  | cons ev tr ih =>
    obtain ⟨sd, x⟩ := ev
    intro ev' h e
    simp only [tagFrom, List.mem_cons] at h
    rcases h with h | h
    · subst h
      cases x with
      | error e' => exact absurd rfl (hne _ List.mem_cons_self e')
      | next v => simp [Notif.map]
      | completed => simp [Notif.map]
    · exact ih (n + 1) (fun ev h => hne ev (List.mem_cons_of_mem _ h)) ev' h e

end Agg

import RxModel.Disp
/-!
# Lemmas shared by the C25–C27 proofs: weighted sums over thread lists, invariants of `Sys.run`
-/

namespace Disp

/-- sum of a weight over a list (threads, or dependents) -/
def wsum {α : Type} (w : α → Nat) (l : List α) : Nat := (l.map w).sum

@[simp] theorem wsum_nil {α} (w : α → Nat) : wsum w [] = 0 := rfl
@[simp] theorem wsum_cons {α} (w : α → Nat) (a : α) (l : List α) : wsum w (a :: l) = w a + wsum w l := by
  simp [wsum]
@[simp] theorem wsum_append {α} (w : α → Nat) (l m : List α) : wsum w (l ++ m) = wsum w l + wsum w m := by
  simp [wsum]

/-- replacing element `i` of a list moves the weighted sum by exactly the weight difference -/
theorem wsum_split {α} (w : α → Nat) (l : List α) (i : Nat) (a : α) (h : l[i]? = some a) :
    ∃ rest, wsum w l = rest + w a ∧ ∀ a', wsum w (l.set i a') = rest + w a' := by
  induction l generalizing i with
  | nil => simp at h
  | cons x xs ih =>
    cases i with
    | zero =>
      simp at h; subst h
      exact ⟨wsum w xs, by simp; omega, fun a' => by simp; omega⟩
    | succ n =>
      simp at h
      obtain ⟨rest, h1, h2⟩ := ih n h
      refine ⟨w x + rest, by simp [h1]; omega, fun a' => by simp [h2]; omega⟩

theorem wsum_eq_zero {α} (w : α → Nat) (l : List α) (h : ∀ a ∈ l, w a = 0) : wsum w l = 0 := by
  induction l with
  | nil => rfl
  | cons x xs ih =>
    simp only [wsum_cons]
    rw [h x (by simp), ih (fun a ha => h a (by simp [ha]))]

theorem wsum_pos_of_mem {α} (w : α → Nat) (l : List α) (a : α) (h : a ∈ l) (hw : 0 < w a) : 0 < wsum w l := by
  induction l with
  | nil => simp at h
  | cons x xs ih =>
    simp only [wsum_cons]
    rcases List.mem_cons.mp h with rfl | h'
    · omega
    · have := ih h'; omega

theorem wsum_map {α β} (w : β → Nat) (g : α → β) (l : List α) : wsum w (l.map g) = wsum (fun a => w (g a)) l := by
  simp [wsum, List.map_map, Function.comp_def]

theorem mem_of_set {α} (l : List α) (i : Nat) (a b : α) (h : b ∈ l.set i a) : b = a ∨ b ∈ l := by
  induction l generalizing i with
  | nil => simp at h
  | cons x xs ih =>
    cases i with
    | zero => simp at h; rcases h with h | h <;> simp [h]
    | succ n =>
      simp at h
      rcases h with h | h
      · simp [h]
      · rcases ih n h with h' | h' <;> simp [h']

namespace Sys
variable {σ π : Type}

theorem run_nil (f : σ → π → σ × π) (s : Sys σ π) : s.run f [] = s := rfl
theorem run_cons (f : σ → π → σ × π) (s : Sys σ π) (t : Nat) (ts : List Nat) :
    s.run f (t :: ts) = (s.step f t).run f ts := rfl

/-- a predicate preserved by every step of every thread holds after every schedule -/
theorem run_inv (f : σ → π → σ × π) (I : Sys σ π → Prop)
    (hstep : ∀ s tid, I s → I (s.step f tid)) (s : Sys σ π) (sched : List Nat) (h : I s) :
    I (s.run f sched) := by
  induction sched generalizing s with
  | nil => exact h
  | cons t ts ih => exact ih _ (hstep s t h)

/-- a step of thread `tid` is determined by that thread's local state: reduce a goal about `step` to a goal
about the thread function. -/
theorem step_cases (f : σ → π → σ × π) (s : Sys σ π) (tid : Nat) (P : Sys σ π → Prop)
    (hnone : P s)
    (hsome : ∀ p, s.pcs[tid]? = some p → P ⟨(f s.sh p).1, s.pcs.set tid (f s.sh p).2⟩) :
    P (s.step f tid) := by
  unfold step
  split
  · exact hnone
  · rename_i p hp; exact hsome p hp

end Sys

@[simp] theorem bump_same (c : Nat → Nat) (i : Nat) : bump c i i = c i + 1 := by simp [bump]
theorem bump_other (c : Nat → Nat) (i j : Nat) (h : j ≠ i) : bump c i j = c j := by simp [bump, h]

end Disp

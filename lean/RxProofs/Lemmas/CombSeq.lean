import RxModel.CombSeq
import RxProofs.Lemmas.CombHO
/-!
# Invariants of the sequential machines (C10)
-/

namespace Comb

/-- at most the most recently yielded source is live, and then no action is pending -/
structure SInv (st : St SeqSt) : Prop where
  wf : st.p.WF
  one : st.p.live = [] ∨ (st.p.live = [st.s.idx - 1] ∧ 1 ≤ st.s.idx ∧ st.s.pending = false)

theorem seq_init_inv : SInv seqInit := ⟨by intro h; simp [seqInit] at h, Or.inl rfl⟩

theorem seq_step_inv {α} (kind : SeqKind) (items : Nat → Item) (st : St SeqSt) (e : Ev α) (h : SInv st) :
    SInv (step (seqM (α := α) kind items) st e).1 := by
  have hwf := step_WF (seqM (α := α) kind items) st e h.wf
  refine ⟨hwf, ?_⟩
  cases e with
  | dispose => left; simp [step, Plumb.dispose]
  | tick =>
    simp only [step, seqM, seqTick]
    by_cases hp : st.s.pending = true
    · cases hd : st.p.done
      · -- an action is pending and not cancelled: nothing is live
        have hl : st.p.live = [] := by
          rcases h.one with h1 | ⟨_, _, h3⟩
          · exact h1
          · simp [hp] at h3
        simp only [hp, Bool.not_true, Bool.false_eq_true, if_false]
        cases hi : items st.s.idx with
        | src => right; simp [Plumb.acts, Plumb.act, hd, hl]
        | stop =>
          left
          cases kind <;> cases hle : st.s.lastErr <;> simp [Plumb.acts, Plumb.act, hd, Notif.isTerminal]
        | raise er =>
          left
          cases kind <;> simp [Plumb.acts, Plumb.act, hd, Notif.isTerminal, hl]
        | fail er =>
          left
          cases kind <;> simp [Plumb.acts, Plumb.act, hd, Notif.isTerminal, hl]
      · left; simp [hp, hd, Plumb.acts, h.wf hd]
    · have hp' : st.s.pending = false := by simpa using hp
      simpa [hp', Plumb.acts] using h.one
  | src k n =>
    by_cases hk : k ∈ st.p.live
    · have hnd := not_done_of_live h.wf hk
      rcases h.one with h1 | ⟨h1, h2, h3⟩
      · simp [h1] at hk
      · have hk' : k = st.s.idx - 1 := by simpa [h1] using hk
        subst hk'
        cases n with
        | next v => right; simp [step, hk, seqM, seqHandler, Plumb.acts, Plumb.act, hnd, Notif.isTerminal, h1, h2, h3]
        | error er =>
          left
          cases kind <;> simp [step, hk, seqM, seqHandler, Plumb.acts, Plumb.act, hnd, Notif.isTerminal, h1]
        | completed =>
          left
          cases kind <;> simp [step, hk, seqM, seqHandler, Plumb.acts, Plumb.act, hnd, Notif.isTerminal, h1]
    · rw [step_src_not_live _ _ _ _ hk]; exact h.one

theorem seq_final_inv {α} (kind : SeqKind) (items : Nat → Item) (es : List (Ev α)) : ∀ st, SInv st →
    SInv (final (seqM (α := α) kind items) st es) := by
  induction es with
  | nil => intro st h; exact h
  | cons e es ih => intro st h; exact ih _ (seq_step_inv kind items st e h)

end Comb

namespace Comb

def nextOf {α} : Nat × Notif α → Option α
  | (_, .next v) => some v
  | _ => none

theorem outVals_acts {β} (p : Plumb) (as : List (Act β)) :
    outVals (p.acts as).2 = if p.done then [] else nextVals (cut (actEmits as)) := by
  rw [outVals_eq_nextVals]
  cases hd : p.done
  · simp [emits_acts _ _ hd]
  · simp [emits_acts_done _ _ hd, nextVals]

theorem seq_step_out {α} (kind : SeqKind) (items : Nat → Item) (st : St SeqSt) (e : Ev α) (h : st.p.WF) :
    outVals (step (seqM (α := α) kind items) st e).2 = (accOne st e).filterMap nextOf := by
  cases e with
  | dispose => simp [step, Plumb.dispose, accOne, outVals_eq_nextVals, nextVals]
  | tick =>
    simp only [step, accOne, List.filterMap_nil, outVals_acts]
    split
    · rfl
    · simp only [seqM, seqTick]
      by_cases hp : st.s.pending = true
      · cases hd : st.p.done
        · cases hi : items st.s.idx <;> cases kind <;> cases hl : st.s.lastErr <;>
            simp [hp, hi, hl, actEmits, cut, nextVals, Notif.isTerminal]
        · simp [hp, actEmits, cut, nextVals]
      · have hp' : st.s.pending = false := by simpa using hp
        simp [hp', actEmits, cut, nextVals]
  | src k n =>
    by_cases hk : k ∈ st.p.live
    · rw [outVals_step_src _ _ _ _ h hk]
      simp only [accOne, hk, if_true, seqM]
      cases n with
      | next v => simp [seqHandler, actEmits, cut, nextVals, nextOf, Notif.isTerminal]
      | error er => cases kind <;> simp [seqHandler, actEmits, cut, nextVals, nextOf, Notif.isTerminal]
      | completed => cases kind <;> simp [seqHandler, actEmits, cut, nextVals, nextOf, Notif.isTerminal]
    · simp [step_src_not_live _ _ _ _ hk, accOne, hk]

/-- the index only grows -/
theorem seq_idx_mono {α} (kind : SeqKind) (items : Nat → Item) (st : St SeqSt) (e : Ev α) :
    st.s.idx ≤ (step (seqM (α := α) kind items) st e).1.s.idx := by
  cases e with
  | dispose => exact Nat.le_refl _
  | tick =>
    simp only [step, seqM, seqTick]
    split
    · exact Nat.le_refl _
    · split
      · exact Nat.le_refl _
      · cases items st.s.idx <;> cases kind <;> simp
  | src k n =>
    simp only [step]
    split
    · split <;> (cases n <;> cases kind <;> simp [seqM, seqHandler])
    · exact Nat.le_refl _

/-- the delivered notifications come from sources with non-decreasing ids, all of them ≥ the current one -/
theorem seq_ids_sorted {α} (kind : SeqKind) (items : Nat → Item) (es : List (Ev α)) : ∀ st, SInv st →
    (∀ kn, kn ∈ accepted (seqM (α := α) kind items) st es → st.s.idx ≤ kn.1 + 1) ∧
    ((accepted (seqM (α := α) kind items) st es).map (·.1)).Pairwise (· ≤ ·) := by
  induction es with
  | nil => intro st _; simp [accepted]
  | cons e es ih =>
    intro st h
    have ih' := ih _ (seq_step_inv kind items st e h)
    have hm := seq_idx_mono (α := α) kind items st e
    rw [accepted_cons]
    have hone : ∀ kn, kn ∈ accOne st e → kn.1 + 1 = st.s.idx := by
      intro kn hkn
      cases e with
      | src k n =>
        simp only [accOne] at hkn
        split at hkn
        · rename_i hk
          simp at hkn; subst hkn
          rcases h.one with h1 | ⟨h1, h2, _⟩
          · simp [h1] at hk
          · simp [h1] at hk; simp [hk]; omega
        · simp at hkn
      | tick => simp [accOne] at hkn
      | dispose => simp [accOne] at hkn
    refine ⟨?_, ?_⟩
    · intro kn hkn
      rcases List.mem_append.mp hkn with h1 | h1
      · have := hone kn h1; omega
      · have := ih'.1 kn h1; omega
    · rw [List.map_append, List.pairwise_append]
      refine ⟨?_, ih'.2, ?_⟩
      · cases e with
        | src k n => simp only [accOne]; split <;> simp
        | tick => simp [accOne]
        | dispose => simp [accOne]
      · intro a ha b hb
        obtain ⟨kn, hkn, rfl⟩ := List.mem_map.mp ha
        obtain ⟨kn', hkn', rfl⟩ := List.mem_map.mp hb
        have := hone kn hkn; have := ih'.1 kn' hkn'; omega

end Comb

namespace Comb

theorem mem_subsOf {β} (effs : List (Eff β)) (j : Nat) : j ∈ subsOf effs ↔ Eff.sub j ∈ effs := by
  induction effs with
  | nil => simp
  | cons x xs ih => cases x <;> simp [subsOf, ih]

theorem seq_handler_no_sub {α} (kind : SeqKind) (s : SeqSt) (k : Nat) (n : Notif α) :
    actSubs (seqHandler kind s k n).2 = [] := by
  cases n <;> cases kind <;> rfl

/-- the subscribe effects of one step: only the scheduled action subscribes, and only the next source -/
theorem seq_step_subs1 {α} (kind : SeqKind) (items : Nat → Item) (st : St SeqSt) (e : Ev α) :
    subsOf (step (seqM (α := α) kind items) st e).2 =
      (match e with
       | .tick => if st.s.pending = true ∧ st.p.done = false ∧ items st.s.idx = .src then [st.s.idx] else []
       | _ => []) := by
  cases e with
  | dispose => simp [step, Plumb.dispose]
  | src k n =>
    by_cases hk : k ∈ st.p.live
    · rw [subsOf_step_src _ _ _ _ hk]
      simp only [seqM, seq_handler_no_sub]
    · simp [step_src_not_live _ _ _ _ hk]
  | tick =>
    simp only [step, subsOf_acts, seqM, seqTick]
    by_cases hp : st.s.pending = true
    · cases hd : st.p.done
      · cases hi : items st.s.idx <;> cases kind <;> cases hl : st.s.lastErr <;> simp [hp, hi, hl, actSubs]
      · simp [hp, actSubs]
    · have hp' : st.s.pending = false := by simpa using hp
      simp [hp', actSubs]

/-- … and, when the iterator yields no unlogged failing source (`fail`), the index counts exactly the subscriptions -/
theorem seq_step_subs {α} (kind : SeqKind) (items : Nat → Item) (hnf : ∀ j, (items j).isFail = false) (st : St SeqSt) (e : Ev α) :
    subsOf (step (seqM (α := α) kind items) st e).2 =
      (match e with
       | .tick => if st.s.pending = true ∧ st.p.done = false ∧ items st.s.idx = .src then [st.s.idx] else []
       | _ => []) ∧
    (step (seqM (α := α) kind items) st e).1.s.idx = st.s.idx + (subsOf (step (seqM (α := α) kind items) st e).2).length := by
  refine ⟨seq_step_subs1 kind items st e, ?_⟩
  cases e with
  | dispose => simp [step, Plumb.dispose]
  | src k n =>
    by_cases hk : k ∈ st.p.live
    · rw [subsOf_step_src _ _ _ _ hk, step_src_state _ _ _ _ hk]
      simp only [seqM, seq_handler_no_sub]
      cases n <;> cases kind <;> simp [seqHandler]
    · simp [step_src_not_live _ _ _ _ hk]
  | tick =>
    have hf := hnf st.s.idx
    simp only [step, subsOf_acts, seqM, seqTick]
    by_cases hp : st.s.pending = true
    · cases hd : st.p.done
      · cases hi : items st.s.idx <;> cases kind <;> cases hl : st.s.lastErr <;>
          simp [hp, hi, hl, actSubs, Item.isFail] at hf ⊢
      · simp [hp, actSubs]
    · have hp' : st.s.pending = false := by simpa using hp
      simp [hp', actSubs]

theorem itemsCount_noFail (n : Option Nat) : ∀ j, (itemsCount n j).isFail = false := by
  intro j; cases n <;> simp only [itemsCount] <;> (try split) <;> rfl

theorem seq_run_count {α} (kind : SeqKind) (items : Nat → Item) (hnf : ∀ j, (items j).isFail = false) (es : List (Ev α)) : ∀ st : St SeqSt,
    List.range st.s.idx ++ subsOf (run (seqM (α := α) kind items) st es)
      = List.range (final (seqM (α := α) kind items) st es).s.idx := by
  induction es with
  | nil => intro st; simp [final]
  | cons e es ih =>
    intro st
    have hs := seq_step_subs (α := α) kind items hnf st e
    rw [run_cons, subsOf_append, final, ← ih, ← List.append_assoc]
    congr 1
    rw [hs.2, hs.1]
    cases e with
    | tick => simp only; split <;> simp [List.range_succ]
    | src k n => simp
    | dispose => simp

theorem seq_idx_le_count {α} (kind : SeqKind) (n : Nat) (es : List (Ev α)) : ∀ st : St SeqSt, st.s.idx ≤ n →
    (final (seqM (α := α) kind (itemsCount (some n))) st es).s.idx ≤ n := by
  induction es with
  | nil => intro st h; exact h
  | cons e es ih =>
    intro st h
    apply ih
    have hs := seq_step_subs (α := α) kind (itemsCount (some n)) (itemsCount_noFail _) st e
    rw [hs.2, hs.1]
    cases e with
    | tick =>
      simp only
      split
      · rename_i hc
        have : st.s.idx < n := by
          have := hc.2.2
          simp only [itemsCount] at this
          split at this
          · assumption
          · cases this
        simp; omega
      · simpa using h
    | src k n => simpa using h
    | dispose => simpa using h

theorem seq_subs_done {α} (kind : SeqKind) (items : Nat → Item) (es : List (Ev α)) : ∀ st : St SeqSt,
    st.p.WF → st.p.done = true → subsOf (run (seqM (α := α) kind items) st es) = [] := by
  induction es with
  | nil => intro _ _ _; rfl
  | cons e es ih =>
    intro st h hd
    rw [run_cons, subsOf_append, ih _ (step_WF _ st e h) (step_done _ st e h hd), seq_step_subs1 kind items st e]
    cases e <;> simp [hd]

/-- concat kind: a completion can only come from the scheduled action finding the iterator exhausted -/
theorem concat_completed_step {α} (items : Nat → Item) (st : St SeqSt) (e : Ev α) (h : st.p.WF)
    (hc : Notif.completed ∈ emits (step (seqM (α := α) .concat items) st e).2) : items st.s.idx = .stop := by
  cases e with
  | dispose => simp [emits_step_dispose] at hc
  | src k n =>
    by_cases hk : k ∈ st.p.live
    · rw [emits_step_src _ _ _ _ h hk] at hc
      cases n <;> simp [seqM, seqHandler, actEmits, cut, Notif.isTerminal] at hc
    · simp [step_src_not_live _ _ _ _ hk] at hc
  | tick =>
    simp only [step] at hc
    cases hd : st.p.done
    · rw [emits_acts _ _ hd] at hc
      simp only [seqM, seqTick] at hc
      by_cases hp : st.s.pending = true
      · cases hi : items st.s.idx with
        | stop => rfl
        | src => simp [hp, hd, hi, actEmits, cut] at hc
        | raise er => simp [hp, hd, hi, actEmits, cut, Notif.isTerminal] at hc
        | fail er => simp [hp, hd, hi, actEmits, cut, Notif.isTerminal] at hc
      · have hp' : st.s.pending = false := by simpa using hp
        simp [hp', actEmits, cut] at hc
    · rw [emits_acts_done _ _ hd] at hc; simp at hc

theorem concat_completed_run {α} (items : Nat → Item) (es : List (Ev α)) : ∀ st : St SeqSt, st.p.WF →
    Notif.completed ∈ emits (run (seqM (α := α) .concat items) st es) →
    ∃ j, st.s.idx ≤ j ∧ j ≤ (final (seqM (α := α) .concat items) st es).s.idx ∧ items j = .stop := by
  induction es with
  | nil => intro st _ hc; simp at hc
  | cons e es ih =>
    intro st h hc
    rw [run_cons, emits_append, List.mem_append] at hc
    have hm := seq_idx_mono (α := α) .concat items st e
    have hfin : ∀ st' : St SeqSt, ∀ es' : List (Ev α), st'.s.idx ≤ (final (seqM (α := α) .concat items) st' es').s.idx := by
      intro st' es'
      induction es' generalizing st' with
      | nil => exact Nat.le_refl _
      | cons e' es' ih' => exact Nat.le_trans (seq_idx_mono .concat items st' e') (ih' _)
    rcases hc with hc | hc
    · exact ⟨st.s.idx, Nat.le_refl _, Nat.le_trans hm (hfin _ _), concat_completed_step items st e h hc⟩
    · obtain ⟨j, h1, h2, h3⟩ := ih _ (step_WF _ st e h) hc
      exact ⟨j, Nat.le_trans hm h1, h2, h3⟩

end Comb

namespace Comb

/-! ## catch_handler -/

structure ChInv (st : St ChSt) : Prop where
  wf : st.p.WF
  one : st.p.live = [] ∨ (st.p.live = [0] ∧ st.s.switched = false) ∨ (st.p.live = [1] ∧ st.s.switched = true)

theorem ch_step_inv {α} (res : Except Err Unit) (st : St ChSt) (e : Ev α) (h : ChInv st) :
    ChInv (step (chM (α := α) res) st e).1 := by
  refine ⟨step_WF _ st e h.wf, ?_⟩
  cases e with
  | tick => simpa [step, chM, Plumb.acts] using h.one
  | dispose => left; simp [step, Plumb.dispose]
  | src k n =>
    by_cases hk : k ∈ st.p.live
    · have hnd := not_done_of_live h.wf hk
      rcases h.one with h1 | ⟨h1, h2⟩ | ⟨h1, h2⟩
      · simp [h1] at hk
      · have hk0 : k = 0 := by simpa [h1] using hk
        subst hk0
        cases n with
        | next v => right; left; simp [step, hk, chM, chHandler, Plumb.acts, Plumb.act, hnd, Notif.isTerminal, h1, h2]
        | completed => left; simp [step, hk, chM, chHandler, Plumb.acts, Plumb.act, hnd, Notif.isTerminal]
        | error er =>
          cases res with
          | error ex => left; simp [step, hk, chM, chHandler, Plumb.acts, Plumb.act, hnd, Notif.isTerminal]
          | ok u => right; right; simp [step, hk, chM, chHandler, Plumb.acts, Plumb.act, hnd, Notif.isTerminal, h1]
      · have hk1 : k = 1 := by simpa [h1] using hk
        subst hk1
        cases n with
        | next v => right; right; simp [step, hk, chM, chHandler, Plumb.acts, Plumb.act, hnd, Notif.isTerminal, h1, h2]
        | completed => left; simp [step, hk, chM, chHandler, Plumb.acts, Plumb.act, hnd, Notif.isTerminal]
        | error er => left; simp [step, hk, chM, chHandler, Plumb.acts, Plumb.act, hnd, Notif.isTerminal]
    · rw [step_src_not_live _ _ _ _ hk]; exact h.one

theorem ch_final_inv {α} (res : Except Err Unit) (es : List (Ev α)) : ∀ st, ChInv st →
    ChInv (final (chM (α := α) res) st es) := by
  induction es with
  | nil => intro st h; exact h
  | cons e es ih => intro st h; exact ih _ (ch_step_inv res st e h)

theorem ch_init_inv : ChInv chInit :=
  ⟨by intro h; simp [chInit] at h, Or.inr (Or.inl ⟨rfl, rfl⟩)⟩

end Comb

namespace Comb

/-! ## inline hand-over (`seqInlineM`) -/

theorem seq_inline_step_inv {α} (kind : SeqKind) (items : Nat → Item) (st : St SeqSt) (e : Ev α) (h : SInv st) :
    SInv (step (seqInlineM (α := α) kind items) st e).1 := by
  cases e with
  | dispose => exact seq_step_inv (α := α) kind items st .dispose h
  | tick => exact seq_step_inv (α := α) kind items st .tick h
  | src k n =>
    refine ⟨step_WF _ st _ h.wf, ?_⟩
    by_cases hk : k ∈ st.p.live
    · have hnd := not_done_of_live h.wf hk
      rcases h.one with h1 | ⟨h1, h2, h3⟩
      · simp [h1] at hk
      · have hk' : k = st.s.idx - 1 := by simpa [h1] using hk
        subst hk'
        have hne : ¬ (st.s.idx - 1 = st.s.idx) := by omega
        cases n with
        | next v =>
          right
          simp [step, hk, seqInlineM, seqInlineHandler, seqHandler, seqTick, Plumb.acts, Plumb.act, hnd, Notif.isTerminal, h1, h2, h3]
        | error er =>
          cases kind with
          | concat =>
            left
            simp [step, hk, seqInlineM, seqInlineHandler, seqHandler, seqTick, Plumb.acts, Plumb.act, hnd, Notif.isTerminal, h1, h3]
          | «catch» =>
            cases hi : items st.s.idx with
            | src =>
              right
              simp [step, hk, seqInlineM, seqInlineHandler, seqHandler, seqTick, hi, Plumb.acts, Plumb.act, hnd, Notif.isTerminal, h1, hne]
            | stop =>
              left
              simp [step, hk, seqInlineM, seqInlineHandler, seqHandler, seqTick, hi, Plumb.acts, Plumb.act, hnd, Notif.isTerminal, h1]
            | raise ex =>
              left
              simp [step, hk, seqInlineM, seqInlineHandler, seqHandler, seqTick, hi, Plumb.acts, Plumb.act, hnd, Notif.isTerminal, h1]
            | fail ex =>
              left
              simp [step, hk, seqInlineM, seqInlineHandler, seqHandler, seqTick, hi, Plumb.acts, Plumb.act, hnd, Notif.isTerminal, h1]
          | oern =>
            cases hi : items st.s.idx with
            | src =>
              right
              simp [step, hk, seqInlineM, seqInlineHandler, seqHandler, seqTick, hi, Plumb.acts, Plumb.act, hnd, Notif.isTerminal, h1, hne]
            | stop =>
              left
              cases hl : st.s.lastErr <;>
                simp [step, hk, seqInlineM, seqInlineHandler, seqHandler, seqTick, hi, hl, Plumb.acts, Plumb.act, hnd, Notif.isTerminal, h1]
            | raise ex =>
              left
              simp [step, hk, seqInlineM, seqInlineHandler, seqHandler, seqTick, hi, Plumb.acts, Plumb.act, hnd, Notif.isTerminal, h1]
            | fail ex =>
              left
              simp [step, hk, seqInlineM, seqInlineHandler, seqHandler, seqTick, hi, Plumb.acts, Plumb.act, hnd, Notif.isTerminal, h1]
        | completed =>
          cases kind with
          | «catch» =>
            left
            simp [step, hk, seqInlineM, seqInlineHandler, seqHandler, seqTick, Plumb.acts, Plumb.act, hnd, Notif.isTerminal, h1, h3]
          | concat =>
            cases hi : items st.s.idx with
            | src =>
              right
              simp [step, hk, seqInlineM, seqInlineHandler, seqHandler, seqTick, hi, Plumb.acts, Plumb.act, hnd, Notif.isTerminal, h1, hne]
            | stop =>
              left
              cases hl : st.s.lastErr <;>
                simp [step, hk, seqInlineM, seqInlineHandler, seqHandler, seqTick, hi, hl, Plumb.acts, Plumb.act, hnd, Notif.isTerminal, h1]
            | raise ex =>
              left
              simp [step, hk, seqInlineM, seqInlineHandler, seqHandler, seqTick, hi, Plumb.acts, Plumb.act, hnd, Notif.isTerminal, h1]
            | fail ex =>
              left
              simp [step, hk, seqInlineM, seqInlineHandler, seqHandler, seqTick, hi, Plumb.acts, Plumb.act, hnd, Notif.isTerminal, h1]
          | oern =>
            cases hi : items st.s.idx with
            | src =>
              right
              simp [step, hk, seqInlineM, seqInlineHandler, seqHandler, seqTick, hi, Plumb.acts, Plumb.act, hnd, Notif.isTerminal, h1, hne]
            | stop =>
              left
              cases hl : st.s.lastErr <;>
                simp [step, hk, seqInlineM, seqInlineHandler, seqHandler, seqTick, hi, hl, Plumb.acts, Plumb.act, hnd, Notif.isTerminal, h1]
            | raise ex =>
              left
              simp [step, hk, seqInlineM, seqInlineHandler, seqHandler, seqTick, hi, Plumb.acts, Plumb.act, hnd, Notif.isTerminal, h1]
            | fail ex =>
              left
              simp [step, hk, seqInlineM, seqInlineHandler, seqHandler, seqTick, hi, Plumb.acts, Plumb.act, hnd, Notif.isTerminal, h1]
    · rw [step_src_not_live _ _ _ _ hk]; exact h.one

theorem seq_inline_final_inv {α} (kind : SeqKind) (items : Nat → Item) (es : List (Ev α)) : ∀ st, SInv st →
    SInv (final (seqInlineM (α := α) kind items) st es) := by
  induction es with
  | nil => intro st h; exact h
  | cons e es ih => intro st h; exact ih _ (seq_inline_step_inv kind items st e h)

theorem seq_inline_step_out {α} (kind : SeqKind) (items : Nat → Item) (st : St SeqSt) (e : Ev α) (h : st.p.WF) :
    outVals (step (seqInlineM (α := α) kind items) st e).2 = (accOne st e).filterMap nextOf := by
  cases e with
  | dispose => exact seq_step_out (α := α) kind items st .dispose h
  | tick => exact seq_step_out (α := α) kind items st .tick h
  | src k n =>
    by_cases hk : k ∈ st.p.live
    · rw [outVals_step_src _ _ _ _ h hk]
      simp only [accOne, hk, if_true, seqInlineM, seqInlineHandler]
      cases n with
      | next v =>
        cases hp : st.s.pending <;> cases hi : items st.s.idx <;> cases kind <;> cases hl : st.s.lastErr <;>
          simp [seqHandler, seqTick, hp, hi, hl, actEmits, cut, nextVals, nextOf, Notif.isTerminal]
      | error er =>
        cases hi : items st.s.idx <;> cases kind <;> cases hl : st.s.lastErr <;> cases hp : st.s.pending <;>
          simp [seqHandler, seqTick, hp, hi, hl, actEmits, cut, nextVals, nextOf, Notif.isTerminal]
      | completed =>
        cases hi : items st.s.idx <;> cases kind <;> cases hl : st.s.lastErr <;> cases hp : st.s.pending <;>
          simp [seqHandler, seqTick, hp, hi, hl, actEmits, cut, nextVals, nextOf, Notif.isTerminal]
    · simp [step_src_not_live _ _ _ _ hk, accOne, hk]

end Comb

namespace Comb

/-! ## generic versions (any machine over `SeqSt` with the step properties below) — used for the inline machine -/

/-- a step subscribes nothing, or exactly the next source of the iterator (which then exists) -/
def SubsStep {α} (m : Machine SeqSt α α) (items : Nat → Item) : Prop :=
  ∀ (st : St SeqSt) (e : Ev α), SInv st →
    (subsOf (step m st e).2 = [] ∧ (step m st e).1.s.idx = st.s.idx) ∨
    (subsOf (step m st e).2 = [st.s.idx] ∧ (step m st e).1.s.idx = st.s.idx + 1 ∧ items st.s.idx = .src)

theorem gen_ids_sorted {α} (m : Machine SeqSt α α)
    (hinv : ∀ st e, SInv st → SInv (step m st e).1) (hmono : ∀ st e, SInv st → st.s.idx ≤ (step m st e).1.s.idx)
    (es : List (Ev α)) : ∀ st, SInv st →
    (∀ kn, kn ∈ accepted m st es → st.s.idx ≤ kn.1 + 1) ∧ ((accepted m st es).map (·.1)).Pairwise (· ≤ ·) := by
  induction es with
  | nil => intro st _; simp [accepted]
  | cons e es ih =>
    intro st h
    have ih' := ih _ (hinv st e h)
    have hm : st.s.idx ≤ (step m st e).1.s.idx := hmono st e h
    rw [accepted_cons]
    have hone : ∀ kn, kn ∈ accOne st e → kn.1 + 1 = st.s.idx := by
      intro kn hkn
      cases e with
      | src k n =>
        simp only [accOne] at hkn
        split at hkn
        · rename_i hk
          simp at hkn; subst hkn
          rcases h.one with h1 | ⟨h1, h2, _⟩
          · simp [h1] at hk
          · simp [h1] at hk; simp [hk]; omega
        · simp at hkn
      | tick => simp [accOne] at hkn
      | dispose => simp [accOne] at hkn
    refine ⟨?_, ?_⟩
    · intro kn hkn
      rcases List.mem_append.mp hkn with h1 | h1
      · have := hone kn h1; omega
      · have := ih'.1 kn h1; omega
    · rw [List.map_append, List.pairwise_append]
      refine ⟨?_, ih'.2, ?_⟩
      · cases e with
        | src k n => simp only [accOne]; split <;> simp
        | tick => simp [accOne]
        | dispose => simp [accOne]
      · intro a ha b hb
        obtain ⟨kn, hkn, rfl⟩ := List.mem_map.mp ha
        obtain ⟨kn', hkn', rfl⟩ := List.mem_map.mp hb
        have := hone kn hkn; have := ih'.1 kn' hkn'; omega

theorem gen_run_count {α} (m : Machine SeqSt α α) (items : Nat → Item)
    (hinv : ∀ st e, SInv st → SInv (step m st e).1) (hsub : SubsStep m items) (es : List (Ev α)) : ∀ st, SInv st →
    List.range st.s.idx ++ subsOf (run m st es) = List.range (final m st es).s.idx := by
  induction es with
  | nil => intro st _; simp [final]
  | cons e es ih =>
    intro st h
    rw [run_cons, subsOf_append, final, ← ih _ (hinv st e h), ← List.append_assoc]
    congr 1
    rcases hsub st e h with h1 | h1
    · rw [h1.1, h1.2]; simp
    · rw [h1.1, h1.2.1]; simp [List.range_succ]

theorem gen_idx_le_count {α} (m : Machine SeqSt α α) (n : Nat)
    (hinv : ∀ st e, SInv st → SInv (step m st e).1) (hsub : SubsStep m (itemsCount (some n))) (es : List (Ev α)) :
    ∀ st, SInv st → st.s.idx ≤ n → (final m st es).s.idx ≤ n := by
  induction es with
  | nil => intro st _ h; exact h
  | cons e es ih =>
    intro st hs h
    apply ih _ (hinv st e hs)
    rcases hsub st e hs with h1 | h1
    · omega
    · have := h1.2.2
      simp only [itemsCount] at this
      split at this
      · omega
      · cases this

theorem gen_idx_mono_run {α} (m : Machine SeqSt α α) (items : Nat → Item)
    (hinv : ∀ st e, SInv st → SInv (step m st e).1) (hsub : SubsStep m items) (es : List (Ev α)) : ∀ st, SInv st →
    st.s.idx ≤ (final m st es).s.idx := by
  induction es with
  | nil => intro st _; exact Nat.le_refl _
  | cons e es ih =>
    intro st h
    have := ih _ (hinv st e h)
    have : st.s.idx ≤ (step m st e).1.s.idx := by rcases hsub st e h with h1 | h1 <;> omega
    simp only [final]; omega

theorem gen_completed_run {α} (m : Machine SeqSt α α) (items : Nat → Item)
    (hinv : ∀ st e, SInv st → SInv (step m st e).1) (hsub : SubsStep m items)
    (hcomp : ∀ st e, SInv st → Notif.completed ∈ emits (step m st e).2 → items st.s.idx = .stop)
    (es : List (Ev α)) : ∀ st, SInv st → Notif.completed ∈ emits (run m st es) →
    ∃ j, st.s.idx ≤ j ∧ j ≤ (final m st es).s.idx ∧ items j = .stop := by
  induction es with
  | nil => intro st _ hc; simp at hc
  | cons e es ih =>
    intro st h hc
    rw [run_cons, emits_append, List.mem_append] at hc
    have hm : st.s.idx ≤ (step m st e).1.s.idx := by rcases hsub st e h with h1 | h1 <;> omega
    rcases hc with hc | hc
    · exact ⟨st.s.idx, Nat.le_refl _, Nat.le_trans hm (gen_idx_mono_run m items hinv hsub es _ (hinv st e h)), hcomp st e h hc⟩
    · obtain ⟨j, h1, h2, h3⟩ := ih _ (hinv st e h) hc
      exact ⟨j, Nat.le_trans hm h1, h2, h3⟩

/-! ### the inline machine satisfies them -/

theorem seq_inline_subs_step {α} (kind : SeqKind) (items : Nat → Item) (hnf : ∀ j, (items j).isFail = false) :
    SubsStep (seqInlineM (α := α) kind items) items := by
  intro st e h
  have hf := hnf st.s.idx
  cases e with
  | dispose => left; simp [step, Plumb.dispose]
  | tick =>
    have hs := seq_step_subs (α := α) kind items hnf st .tick
    have e1 : step (seqInlineM (α := α) kind items) st .tick = step (seqM (α := α) kind items) st .tick := rfl
    rw [e1, hs.2, hs.1]
    simp only
    split
    · rename_i hc; right; exact ⟨rfl, by simp, hc.2.2⟩
    · left; simp
  | src k n =>
    by_cases hk : k ∈ st.p.live
    · rw [subsOf_step_src _ _ _ _ hk, step_src_state _ _ _ _ hk]
      simp only [seqInlineM, seqInlineHandler]
      have h3 : st.s.pending = false := by
        rcases h.one with h1 | ⟨_, _, h3⟩
        · simp [h1] at hk
        · exact h3
      cases n with
      | next v => left; simp [seqHandler, seqTick, h3, actSubs]
      | error er =>
        cases kind <;> cases hi : items st.s.idx <;> cases hl : st.s.lastErr <;>
          simp [seqHandler, seqTick, h3, hi, hl, actSubs, Item.isFail] at hf ⊢
      | completed =>
        cases kind <;> cases hi : items st.s.idx <;> cases hl : st.s.lastErr <;>
          simp [seqHandler, seqTick, h3, hi, hl, actSubs, Item.isFail] at hf ⊢
    · left; simp [step_src_not_live _ _ _ _ hk]

end Comb

namespace Comb

theorem seq_inline_subs_done {α} (kind : SeqKind) (items : Nat → Item) (es : List (Ev α)) : ∀ st : St SeqSt,
    st.p.WF → st.p.done = true → subsOf (run (seqInlineM (α := α) kind items) st es) = [] := by
  induction es with
  | nil => intro _ _ _; rfl
  | cons e es ih =>
    intro st h hd
    rw [run_cons, subsOf_append, ih _ (step_WF _ st e h) (step_done _ st e h hd)]
    cases e with
    | src k n => rw [step_done_src _ st k n h hd]; rfl
    | tick =>
      have e1 : step (seqInlineM (α := α) kind items) st .tick = step (seqM (α := α) kind items) st .tick := rfl
      rw [e1, seq_step_subs1 kind items st .tick]; simp [hd]
    | dispose => simp [step, Plumb.dispose]

/-- inline, concat kind: a completion can only come from the action finding the iterator exhausted -/
theorem concat_inline_completed_step {α} (items : Nat → Item) (st : St SeqSt) (e : Ev α) (h : SInv st)
    (hc : Notif.completed ∈ emits (step (seqInlineM (α := α) .concat items) st e).2) : items st.s.idx = .stop := by
  cases e with
  | dispose => simp [emits_step_dispose] at hc
  | tick => exact concat_completed_step (α := α) items st .tick h.wf hc
  | src k n =>
    by_cases hk : k ∈ st.p.live
    · rw [emits_step_src _ _ _ _ h.wf hk] at hc
      have h3 : st.s.pending = false := by
        rcases h.one with h1 | ⟨_, _, h3⟩
        · simp [h1] at hk
        · exact h3
      cases n with
      | next v => simp [seqInlineM, seqInlineHandler, seqHandler, seqTick, h3, actEmits, cut, Notif.isTerminal] at hc
      | error er => simp [seqInlineM, seqInlineHandler, seqHandler, seqTick, h3, actEmits, cut, Notif.isTerminal] at hc
      | completed =>
        cases hi : items st.s.idx with
        | stop => rfl
        | src => simp [seqInlineM, seqInlineHandler, seqHandler, seqTick, hi, actEmits, cut] at hc
        | raise ex => simp [seqInlineM, seqInlineHandler, seqHandler, seqTick, hi, actEmits, cut, Notif.isTerminal] at hc
        | fail ex => simp [seqInlineM, seqInlineHandler, seqHandler, seqTick, hi, actEmits, cut, Notif.isTerminal] at hc
    · simp [step_src_not_live _ _ _ _ hk] at hc

end Comb

namespace Comb

/-- inline: the index only grows -/
theorem seq_inline_idx_mono {α} (kind : SeqKind) (items : Nat → Item) (st : St SeqSt) (e : Ev α) :
    st.s.idx ≤ (step (seqInlineM (α := α) kind items) st e).1.s.idx := by
  cases e with
  | dispose => exact Nat.le_refl _
  | tick => exact seq_idx_mono (α := α) kind items st .tick
  | src k n =>
    by_cases hk : k ∈ st.p.live
    · rw [step_src_state _ _ _ _ hk]
      simp only [seqInlineM, seqInlineHandler]
      cases n <;> cases kind <;> cases hp : st.s.pending <;> cases hi : items st.s.idx <;> cases hl : st.s.lastErr <;>
        simp [seqHandler, seqTick, hp, hi, hl]
    · rw [step_src_not_live _ _ _ _ hk]; exact Nat.le_refl _

end Comb

import RxProofs.Lemmas.StructConn
/-!
# Raw connectable: what only `connect` / `disconnect` can change (C24, multicast(factory, mapper))
-/

namespace Conn
namespace World
variable {α : Type}

/-- the subscribe times of the source-subscription log -/
def subTimes (w : World α) : List Nat := w.srcLog.map (fun e => e.2.1)

/-- `w'` differs from `w` by nothing that `connect`/`disconnect` control -/
def Same (w w' : World α) : Prop :=
  w'.wrap = w.wrap ∧ w'.subTimes = w.subTimes ∧ w'.hasSub = w.hasSub ∧ w'.nHandles = w.nHandles ∧ w'.curHandle = w.curHandle

theorem Same.refl (w : World α) : Same w w := ⟨rfl, rfl, rfl, rfl, rfl⟩
theorem Same.trans {a b c : World α} (h1 : Same a b) (h2 : Same b c) : Same a c :=
  ⟨h2.1.trans h1.1, h2.2.1.trans h1.2.1, h2.2.2.1.trans h1.2.2.1, h2.2.2.2.1.trans h1.2.2.2.1, h2.2.2.2.2.trans h1.2.2.2.2⟩

theorem closeLog_times (log : List (Nat × Nat × Option Nat)) (sid t : Nat) :
    (closeLog log sid t).map (fun e => e.2.1) = log.map (fun e => e.2.1) := by
  induction log with
  | nil => rfl
  | cons e rest ih =>
    simp only [closeLog, List.map_cons] at ih ⊢
    rw [ih]
    split <;> rfl

theorem closeSrc_same (w : World α) (t sid : Nat) : Same w (w.closeSrc t sid) := by
  unfold closeSrc
  split
  · exact ⟨rfl, by simp only [subTimes]; exact closeLog_times _ _ _, rfl, rfl, rfl⟩
  · exact Same.refl w

theorem disposeSub_same (w : World α) (hw : w.wrap = .raw) (t i : Nat) : Same w (w.disposeSub t i) := by
  unfold disposeSub
  split
  · split
    · exact ⟨rfl, rfl, rfl, rfl, rfl⟩
    · rename_i h; rw [hw] at h; cases h
    · rename_i h; rw [hw] at h; cases h
  · exact Same.refl w

theorem deliver_same (t : Nat) (dl : List (Nat × Notif α)) : ∀ (w : World α), w.wrap = .raw → Same w (w.deliver t dl) := by
  induction dl with
  | nil => intro w _; exact Same.refl w
  | cons d rest ih =>
    intro w hw
    obtain ⟨i, n⟩ := d
    simp only [deliver]
    have h1 : Same w ({ w with out := w.out ++ [(i, t, n)] } : World α) := ⟨rfl, rfl, rfl, rfl, rfl⟩
    split
    · have h2 := disposeSub_same ({ w with out := w.out ++ [(i, t, n)] } : World α) hw t i
      exact (h1.trans h2).trans (ih _ (by rw [h2.1]; exact hw))
    · exact h1.trans (ih _ hw)

theorem srcDeliver_same (w : World α) (hw : w.wrap = .raw) (t sid : Nat) (n : Notif α) : Same w (w.srcDeliver t sid n) := by
  unfold srcDeliver
  have h0 : Same w ({ w with subj := (w.subj.onNotif n).1 } : World α) := ⟨rfl, rfl, rfl, rfl, rfl⟩
  have h1 := deliver_same t (w.subj.onNotif n).2 ({ w with subj := (w.subj.onNotif n).1 } : World α) hw
  split
  · exact (h0.trans h1).trans (closeSrc_same _ t sid)
  · exact h0.trans h1

theorem foldl_srcDeliver_same (t : Nat) (n : Notif α) (subs : List (SrcSub α)) : ∀ (w : World α), w.wrap = .raw →
    Same w (subs.foldl (fun (acc : World α) (s : SrcSub α) => acc.srcDeliver t s.id n) w) := by
  induction subs with
  | nil => intro w _; exact Same.refl w
  | cons s rest ih =>
    intro w hw
    have h1 := srcDeliver_same w hw t s.id n
    exact h1.trans (ih _ (by rw [h1.1]; exact hw))

theorem advance_same (limit : Nat) : ∀ (fuel : Nat) (w : World α), w.wrap = .raw → Same w (advance limit fuel w) := by
  intro fuel
  induction fuel with
  | zero => intro w _; exact Same.refl w
  | succ k ih =>
    intro w hw
    unfold advance
    simp only []
    split
    · exact Same.refl w
    · rename_i _ _ tt xx _ _
      have h0 : Same w ({ w with hot := w.hot.map (fun (l : List (Nat × Notif α)) => l.drop 1) } : World α) := ⟨rfl, rfl, rfl, rfl, rfl⟩
      have h1 := foldl_srcDeliver_same tt xx w.srcOpen ({ w with hot := w.hot.map (fun (l : List (Nat × Notif α)) => l.drop 1) } : World α) hw
      exact (h0.trans h1).trans (ih _ (by rw [h1.1]; exact hw))
    · rename_i _ _ sid tt xx _ _
      have h0 : Same w ({ w with srcOpen := popCold w.srcOpen sid } : World α) := ⟨rfl, rfl, rfl, rfl, rfl⟩
      have h1 := srcDeliver_same ({ w with srcOpen := popCold w.srcOpen sid } : World α) hw tt sid xx
      exact (h0.trans h1).trans (ih _ (by rw [h1.1]; exact hw))
    · rename_i _ _ th xh sid tc xc _ _
      split
      · have h0 : Same w ({ w with hot := w.hot.map (fun (l : List (Nat × Notif α)) => l.drop 1) } : World α) := ⟨rfl, rfl, rfl, rfl, rfl⟩
        have h1 := foldl_srcDeliver_same th xh w.srcOpen ({ w with hot := w.hot.map (fun (l : List (Nat × Notif α)) => l.drop 1) } : World α) hw
        exact (h0.trans h1).trans (ih _ (by rw [h1.1]; exact hw))
      · have h0 : Same w ({ w with srcOpen := popCold w.srcOpen sid } : World α) := ⟨rfl, rfl, rfl, rfl, rfl⟩
        have h1 := srcDeliver_same ({ w with srcOpen := popCold w.srcOpen sid } : World α) hw tc sid xc
        exact (h0.trans h1).trans (ih _ (by rw [h1.1]; exact hw))

theorem opSub_same (w : World α) (hw : w.wrap = .raw) (t i : Nat) : Same w (w.opSub t i) := by
  unfold opSub
  split
  · simp only []
    have h0 : Same w (({ w with subj := (w.subj.subscribe i).1, live := w.live ++ [i] } : World α).record t (w.subj.subscribe i).2) :=
      ⟨rfl, rfl, rfl, rfl, rfl⟩
    split
    · exact h0.trans (disposeSub_same (({ w with subj := (w.subj.subscribe i).1, live := w.live ++ [i] } : World α).record t (w.subj.subscribe i).2) hw t i)
    · exact h0
  · rename_i h; rw [hw] at h; cases h
  · rename_i h; rw [hw] at h; cases h

/-- `disconnect` keeps the wrapper and the subscribe times -/
theorem disposeHandle_times (w : World α) (t h : Nat) :
    (w.disposeHandle t h).wrap = w.wrap ∧ (w.disposeHandle t h).subTimes = w.subTimes := by
  unfold disposeHandle
  split
  · split
    · rename_i sid _
      exact ⟨by simp, by simp only [subTimes]; unfold closeSrc; split <;> simp [closeLog_times]⟩
    · exact ⟨rfl, rfl⟩
  · exact ⟨rfl, rfl⟩

/-- a history without `connect` calls keeps the wrapper and the subscribe times -/
def noConnect : List (Nat × Op) → Bool
  | [] => true
  | (_, .connect) :: _ => false
  | _ :: rest => noConnect rest

theorem runOps_noConnect (ops : List (Nat × Op)) : ∀ (w : World α) (hs : List (Option Nat)), w.wrap = .raw →
    noConnect ops = true →
    (w.runOps hs ops).1.wrap = .raw ∧ (w.runOps hs ops).1.subTimes = w.subTimes := by
  induction ops with
  | nil => intro w hs hw _; exact ⟨hw, rfl⟩
  | cons o rest ih =>
    intro w hs hw hn
    obtain ⟨t, op⟩ := o
    have ha := advance_same t (w.pendingCount + 1) w hw
    have hwa : (advance t (w.pendingCount + 1) w).wrap = .raw := by rw [ha.1]; exact hw
    cases op with
    | sub i =>
      simp only [runOps, applyOp]
      have h1 := opSub_same _ hwa t i
      have := ih _ hs (by rw [h1.1]; exact hwa) (by simpa [noConnect] using hn)
      exact ⟨this.1, by rw [this.2, h1.2.1, ha.2.1]⟩
    | unsub i =>
      simp only [runOps, applyOp]
      have h1 := disposeSub_same _ hwa t i
      have := ih _ hs (by rw [h1.1]; exact hwa) (by simpa [noConnect] using hn)
      exact ⟨this.1, by rw [this.2, h1.2.1, ha.2.1]⟩
    | connect => simp [noConnect] at hn
    | disconnect k =>
      simp only [runOps, applyOp]
      split
      · have h1 := disposeHandle_times (advance t (w.pendingCount + 1) w) t (by assumption)
        have := ih _ hs (by rw [h1.1]; exact hwa) (by simpa [noConnect] using hn)
        exact ⟨this.1, by rw [this.2, h1.2, ha.2.1]⟩
      · have := ih _ hs hwa (by simpa [noConnect] using hn)
        exact ⟨this.1, by rw [this.2, ha.2.1]⟩

/-- subscriptions to a raw connectable never connect it -/
theorem runOps_subs_same (l : List (Nat × Op)) (hl : ∀ o ∈ l, ∃ t i, o = (t, Op.sub i)) :
    ∀ (w : World α) (hs : List (Option Nat)), w.wrap = .raw → Same w (w.runOps hs l).1 ∧ (w.runOps hs l).2 = hs := by
  induction l with
  | nil => intro w hs _; exact ⟨Same.refl w, rfl⟩
  | cons o rest ih =>
    intro w hs hw
    obtain ⟨t, i, rfl⟩ := hl o (by simp)
    simp only [runOps, applyOp]
    have ha := advance_same t (w.pendingCount + 1) w hw
    have hwa : (advance t (w.pendingCount + 1) w).wrap = .raw := by rw [ha.1]; exact hw
    have h1 := opSub_same _ hwa t i
    have := ih (fun o ho => hl o (by simp [ho])) _ hs (by rw [h1.1]; exact hwa)
    exact ⟨(ha.trans h1).trans this.1, this.2⟩

theorem runOps_append (a b : List (Nat × Op)) : ∀ (w : World α) (hs : List (Option Nat)),
    w.runOps hs (a ++ b) = (w.runOps hs a).1.runOps (w.runOps hs a).2 b := by
  induction a with
  | nil => intro w hs; rfl
  | cons o rest ih => intro w hs; obtain ⟨t, op⟩ := o; simp only [List.cons_append, runOps]; exact ih _ _

theorem runOps_wrap_raw (ops : List (Nat × Op)) : ∀ (w : World α) (hs : List (Option Nat)), w.wrap = .raw →
    (w.runOps hs ops).1.wrap = .raw := by
  induction ops with
  | nil => intro w hs hw; exact hw
  | cons o rest ih =>
    intro w hs hw
    obtain ⟨t, op⟩ := o
    have ha := advance_same t (w.pendingCount + 1) w hw
    have hwa : (advance t (w.pendingCount + 1) w).wrap = .raw := by rw [ha.1]; exact hw
    cases op with
    | sub i => simp only [runOps, applyOp]; exact ih _ hs (by rw [(opSub_same _ hwa t i).1]; exact hwa)
    | unsub i => simp only [runOps, applyOp]; exact ih _ hs (by rw [(disposeSub_same _ hwa t i).1]; exact hwa)
    | connect => simp only [runOps, applyOp]; exact ih _ _ (by rw [connect_wrap]; exact hwa)
    | disconnect k =>
      simp only [runOps, applyOp]
      split
      · exact ih _ hs (by rw [disposeHandle_wrap]; exact hwa)
      · exact ih _ hs hwa

theorem foldl_disposeSub_same (t : Nat) (l : List Nat) : ∀ (w : World α), w.wrap = .raw →
    Same w (l.foldl (fun (acc : World α) i => acc.disposeSub t i) w) := by
  induction l with
  | nil => intro w _; exact Same.refl w
  | cons i rest ih =>
    intro w hw
    have h1 := disposeSub_same w hw t i
    exact h1.trans (ih _ (by rw [h1.1]; exact hw))

/-- a raw connectable whose harness disposes everything at the horizon ends disconnected, with no
source subscription open, and the subscribe times of the log are those after the history -/
theorem run_raw_final (w : World α) (hi : ConnInv w) (hw : w.wrap = .raw) (ops : List (Nat × Op)) (horizon : Nat) :
    (w.run ops horizon).hasSub = false ∧ (w.run ops horizon).srcOpen = [] ∧
    (w.run ops horizon).subTimes = (w.runOps [] ops).1.subTimes := by
  unfold run
  simp only [hw]
  have h1 : ConnInv (w.runOps [] ops).1 := runOps_inv ops [] hi
  have hw1 : (w.runOps [] ops).1.wrap = .raw := runOps_wrap_raw ops w [] hw
  have ha := advance_same horizon ((w.runOps [] ops).1.pendingCount + 1) _ hw1
  have h2 : ConnInv (advance horizon ((w.runOps [] ops).1.pendingCount + 1) (w.runOps [] ops).1) := advance_inv horizon _ h1
  have hw2 : (advance horizon ((w.runOps [] ops).1.pendingCount + 1) (w.runOps [] ops).1).wrap = .raw := by rw [ha.1]; exact hw1
  have hf := foldl_disposeSub_same horizon (advance horizon ((w.runOps [] ops).1.pendingCount + 1) (w.runOps [] ops).1).live _ hw2
  have h3 := foldl_disposeSub_inv horizon (advance horizon ((w.runOps [] ops).1.pendingCount + 1) (w.runOps [] ops).1).live h2
  have hw3 := hf.1.trans hw2
  have htimes := hf.2.1.trans ha.2.1
  split
  · rename_i hd hwr hcur
    have hc := disposeHandle_hasSub_cur _ horizon hd hcur
    have hinv := disposeHandle_inv h3 horizon hd
    exact ⟨hc, (hinv.1 hc).1, by rw [(disposeHandle_times _ horizon hd).2]; exact htimes⟩
  · rename_i hne
    -- not (raw with a live handle): the wrapper is raw, so there is no live handle, hence not connected
    have hnone : (List.foldl (fun (acc : World α) i => acc.disposeSub horizon i)
        (advance horizon ((w.runOps [] ops).1.pendingCount + 1) (w.runOps [] ops).1)
        (advance horizon ((w.runOps [] ops).1.pendingCount + 1) (w.runOps [] ops).1).live).curHandle = none := by
      cases hc : (List.foldl (fun (acc : World α) i => acc.disposeSub horizon i)
        (advance horizon ((w.runOps [] ops).1.pendingCount + 1) (w.runOps [] ops).1)
        (advance horizon ((w.runOps [] ops).1.pendingCount + 1) (w.runOps [] ops).1).live).curHandle with
      | none => rfl
      | some h => exact absurd hc (hne h hw3)
    have hns : (List.foldl (fun (acc : World α) i => acc.disposeSub horizon i)
        (advance horizon ((w.runOps [] ops).1.pendingCount + 1) (w.runOps [] ops).1)
        (advance horizon ((w.runOps [] ops).1.pendingCount + 1) (w.runOps [] ops).1).live).hasSub = false := by
      cases hs : (List.foldl (fun (acc : World α) i => acc.disposeSub horizon i)
        (advance horizon ((w.runOps [] ops).1.pendingCount + 1) (w.runOps [] ops).1)
        (advance horizon ((w.runOps [] ops).1.pendingCount + 1) (w.runOps [] ops).1).live).hasSub with
      | false => rfl
      | true =>
        have := (h3.2 hs).1
        rw [hnone] at this; cases this
    exact ⟨hns, (h3.1 hns).1, htimes⟩

end World
end Conn

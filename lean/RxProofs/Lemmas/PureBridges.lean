import RxModel.PureBridges
/-! Helper lemmas for C41 (bridges): "frozen once done" invariants for from_future / to_future / run,
the first-terminal reading of a notification list, delivery counting for to_async, from_callback. -/
open Pure.Bridges
namespace Pure.Bridges

/-! ### from_future -/
namespace FromFuture

theorem deliver_done {α} (f : Fut α) (h : f.isDone = true) :
    deliver false (doneNotifs f) = (true, doneNotifs f) := by
  cases f <;> simp_all [Fut.isDone, doneNotifs, deliver, Notif.isTerminal]

theorem deliver_stopped {α} (ns : List (Notif α)) : deliver true ns = (true, []) := by
  cases ns <;> rfl

/-- once the observer is stopped and the future is done nothing moves any more -/
theorem frozen {α} (s : State α) (hs : s.stopped = true) (hf : s.fut.isDone = true) (evs : List (Event α)) :
    (evs.foldl step s).out = s.out ∧ (evs.foldl step s).fut = s.fut := by
  induction evs generalizing s with
  | nil => exact ⟨rfl, rfl⟩
  | cons e r ih =>
    simp only [List.foldl_cons]
    have key : (step s e).stopped = true ∧ (step s e).fut = s.fut ∧ (step s e).out = s.out := by
      obtain ⟨fut, stopped, out, invalid⟩ := s
      simp only at hs hf
      subst hs
      cases e with
      | resolve o => cases fut <;> cases o <;> simp_all [step, Fut.isDone]
      | dispose => cases fut <;> simp_all [step, Fut.isDone]
    obtain ⟨h1, h2, h3⟩ := key
    have := ih (step s e) h1 (by rw [h2]; exact hf)
    rw [this.1, this.2, h2, h3]; exact ⟨rfl, rfl⟩

theorem outcome_done {α} (o : Outcome α) : o.fut.isDone = true := by cases o <;> rfl

theorem resolve_first {α} (o : Outcome α) (rest : List (Event α)) :
    (run .pending (.resolve o :: rest)).out = doneNotifs o.fut ∧ (run .pending (.resolve o :: rest)).fut = o.fut := by
  simp only [run, List.foldl_cons, subscribe, Fut.isDone, Bool.false_eq_true, if_false, step, runDone,
    deliver_done o.fut (outcome_done o), List.nil_append]
  have := frozen (α := α) { fut := o.fut, stopped := true, out := doneNotifs o.fut } rfl (outcome_done o) rest
  exact this

theorem dispose_first {α} (rest : List (Event α)) :
    (run (α := α) .pending (.dispose :: rest)).out = [] ∧ (run (α := α) .pending (.dispose :: rest)).fut = .cancelled := by
  simp only [run, List.foldl_cons, subscribe, Fut.isDone, Bool.false_eq_true, if_false, step, runDone,
    deliver_stopped, List.append_nil]
  exact frozen (α := α) { fut := .cancelled, stopped := true, out := [] } rfl rfl rest

theorem done_before {α} (f : Fut α) (h : f.isDone = true) (evs : List (Event α)) :
    (run f evs).out = doneNotifs f ∧ (run f evs).fut = f := by
  simp only [run, subscribe, h, if_true, runDone, deliver_done f h, List.nil_append]
  exact frozen (α := α) { fut := f, stopped := true, out := doneNotifs f } rfl h evs

end FromFuture

/-! ### to_future / run -/
namespace ToFuture

/-- the first terminal decides; `l` = last value so far -/
def expAux {α} : Option α → List (Notif α) → Fut α
  | _, [] => .pending
  | _, .next v :: r => expAux (some v) r
  | _, .error e :: _ => .exception e
  | some v, .completed :: _ => .result v
  | none, .completed :: _ => .exception noElements

theorem frozen {α} (s : State α) (hs : s.stopped = true) (hf : s.fut.isDone = true) (evs : List (Event α)) :
    (evs.foldl step s).fut = s.fut := by
  induction evs generalizing s with
  | nil => rfl
  | cons e r ih =>
    simp only [List.foldl_cons]
    have key : (step s e).stopped = true ∧ (step s e).fut = s.fut := by
      obtain ⟨hv, last, fut, stopped⟩ := s
      simp only at hs hf
      subst hs
      cases e with
      | src n => simp [step]
      | cancel => cases fut <;> simp_all [step, Fut.isDone]
    rw [ih (step s e) key.1 (by rw [key.2]; exact hf), key.2]

theorem run_aux {α} (l : Option α) (xs : List (Notif α)) :
    ((xs.map Event.src).foldl step ({ hasValue := l.isSome, last := l } : State α)).fut = expAux l xs := by
  induction xs generalizing l with
  | nil => rfl
  | cons n r ih =>
    cases n with
    | next v =>
      simp only [List.map_cons, List.foldl_cons, step, Bool.false_eq_true, if_false, expAux]
      exact ih (some v)
    | error e =>
      simp only [List.map_cons, List.foldl_cons, step, Bool.false_eq_true, if_false, expAux, Fut.isCancelled]
      exact frozen _ rfl rfl _
    | completed =>
      simp only [List.map_cons, List.foldl_cons, step, Bool.false_eq_true, if_false, Fut.isCancelled]
      rw [frozen _ rfl (by cases l <;> rfl)]
      cases l <;> rfl

def values {α} (xs : List (Notif α)) : List α := xs.filterMap fun n => match n with | .next v => some v | _ => none

theorem expAux_eq {α} (l : Option α) (xs : List (Notif α)) :
    expAux l xs =
      (match xs.dropWhile (fun n => !n.isTerminal) with
       | [] => Fut.pending
       | .error e :: _ => .exception e
       | _ :: _ =>
         match (l.toList ++ values (xs.takeWhile (fun n => !n.isTerminal))).getLast? with
         | some v => .result v
         | none => .exception noElements) := by
  induction xs generalizing l with
  | nil => rfl
  | cons n r ih =>
    cases n with
    | next v =>
      have ht : (Notif.next v).isTerminal = false := rfl
      simp only [expAux, List.dropWhile_cons, List.takeWhile_cons, ht, Bool.not_false, if_true]
      rw [ih (some v)]
      have : ∀ (b : List α), (l.toList ++ v :: b).getLast? = ([v] ++ b).getLast? := by
        intro b
        rw [List.getLast?_append, List.singleton_append]
        cases h : (v :: b).getLast? with
        | none => simp at h
        | some w => simp
      simp only [values, List.filterMap_cons, Option.toList_some, this]
    | error e => simp [expAux, Notif.isTerminal]
    | completed =>
      cases l <;> simp [expAux, Notif.isTerminal, values]

theorem run_eq_expected {α} (xs : List (Notif α)) : (run (xs.map Event.src)).fut = expected xs := by
  have h1 := run_aux (α := α) none xs
  have h2 := expAux_eq (α := α) none xs
  simp only [Option.isSome_none, Option.toList_none, List.nil_append] at h1 h2
  simp only [run, expected]
  rw [h1, h2]
  rfl

/-- `run()` -/
def toRR {α} : Fut α → RunResult α
  | .result v => .returns v
  | .exception e => .raises e
  | _ => .blocks

theorem run_frozen {α} (s : RunState α) (hs : s.stopped = true) (xs : List (Notif α)) :
    xs.foldl runStep s = s := by
  induction xs with
  | nil => rfl
  | cons n r ih => simp [List.foldl_cons, runStep, hs, ih]

theorem runBlocking_aux {α} (l : Option α) (xs : List (Notif α)) :
    (let s := xs.foldl runStep ({ hasResult := l.isSome, result := l } : RunState α)
     if !s.done then RunResult.blocks
     else match s.exception with
       | some e => .raises e
       | none => match s.hasResult, s.result with
         | true, some v => .returns v
         | _, _ => .raises noElements) = toRR (expAux l xs) := by
  induction xs generalizing l with
  | nil => rfl
  | cons n r ih =>
    cases n with
    | next v =>
      simp only [List.foldl_cons, runStep, Bool.false_eq_true, if_false, expAux]
      exact ih (some v)
    | error e =>
      simp only [List.foldl_cons, runStep, Bool.false_eq_true, if_false, expAux]
      rw [run_frozen (α := α) { hasResult := l.isSome, result := l, exception := some e, done := true, stopped := true } rfl]
      rfl
    | completed =>
      simp only [List.foldl_cons, runStep, Bool.false_eq_true, if_false]
      rw [run_frozen (α := α) { hasResult := l.isSome, result := l, done := true, stopped := true } rfl]
      cases l <;> rfl

end ToFuture

/-! ### to_async / start -/
namespace ToAsync

def resultNotifs {α} : Except Err α → List (Notif α)
  | .ok r => [.next r, .completed]
  | .error e => [.error e]

def recvOf {α} (outs : List (Nat × Notif α)) (i : Nat) : List (Notif α) :=
  outs.filterMap (fun (j, n) => if j = i then some n else none)

theorem received_eq {α} (s : State α) (i : Nat) : received s i = recvOf s.outs i := rfl

theorem recvOf_append {α} (a b : List (Nat × Notif α)) (i : Nat) : recvOf (a ++ b) i = recvOf a i ++ recvOf b i := by
  simp [recvOf, List.filterMap_append]

def reps {α} (k : Nat) (R : List (Notif α)) : List (Notif α) := (List.replicate k R).flatten

theorem reps_succ {α} (k : Nat) (R : List (Notif α)) : reps (k + 1) R = R ++ reps k R := by
  simp [reps, List.replicate_succ]

theorem reps_add {α} (a b : Nat) (R : List (Notif α)) : reps (a + b) R = reps a R ++ reps b R := by
  induction a with
  | zero => simp [reps]
  | succ a ih => rw [Nat.add_right_comm, reps_succ, ih, reps_succ, List.append_assoc]

/-- delivery at the action: every queued observer gets the result notifications once per registration -/
theorem recvOf_flush {α} (func : Except Err α) (obs : List Nat) (i : Nat) :
    recvOf (match func with
            | .error e => obs.map (fun j => (j, Notif.error e))
            | .ok r => obs.flatMap (fun j => [(j, Notif.next r), (j, Notif.completed)])) i
      = reps (obs.count i) (resultNotifs func) := by
  induction obs with
  | nil => cases func <;> simp [recvOf, reps]
  | cons j r ih =>
    cases func with
    | error e =>
      simp only [List.map_cons, recvOf, List.filterMap_cons] at ih ⊢
      by_cases h : j = i
      · subst h; simp only [if_true, List.count_cons_self, reps_succ]; rw [ih]; rfl
      · have : (j == i) = false := by simp [h]
        simp only [h, if_false, List.count_cons, this, Bool.false_eq_true, Nat.add_zero]; exact ih
    | ok v =>
      simp only [List.flatMap_cons, recvOf, List.filterMap_append, List.filterMap_cons, List.filterMap_nil] at ih ⊢
      by_cases h : j = i
      · subst h; simp only [if_true, List.count_cons_self, reps_succ]; rw [ih]; rfl
      · have : (j == i) = false := by simp [h]
        simp only [h, if_false, List.count_cons, this, Bool.false_eq_true, Nat.add_zero, List.nil_append]; exact ih

/-- the AsyncSubject after the action has run -/
def Done {α} (func : Except Err α) (s : State α) : Prop :=
  s.stopped = true ∧ s.observers = [] ∧ s.invocations = 1 ∧
    (match func with
     | .ok r => s.exception = none ∧ s.value = some r
     | .error e => s.exception = some e)

theorem after_done {α} (func : Except Err α) (s : State α) (hd : Done func s) (evs : List Event) (i : Nat) :
    recvOf (evs.foldl (step func) s).outs i = recvOf s.outs i ++ reps (evs.count (.subscribe i)) (resultNotifs func) ∧
    (evs.foldl (step func) s).invocations = 1 := by
  induction evs generalizing s with
  | nil => simp [reps, hd.2.2.1]
  | cons e r ih =>
    obtain ⟨h1, h2, h3, h4⟩ := hd
    simp only [List.foldl_cons]
    cases e with
    | run =>
      have hs : step func s .run = s := by simp [step, h3]
      rw [hs]
      have := ih s ⟨h1, h2, h3, h4⟩
      have hne : (Event.run == Event.subscribe i) = false := rfl
      simpa [List.count_cons, hne] using this
    | subscribe j =>
      have hstep : Done func (step func s (.subscribe j)) ∧
          recvOf (step func s (.subscribe j)).outs i =
            recvOf s.outs i ++ (if j = i then resultNotifs func else []) := by
        obtain ⟨st, val, exc, obs, inv, outs⟩ := s
        simp only at h1 h2 h3 h4
        subst h1 h2 h3
        cases func with
        | ok v =>
          obtain ⟨h4a, h4b⟩ := h4
          subst h4a h4b
          simp only [step, Bool.not_true, Bool.false_eq_true, if_false]
          refine ⟨⟨rfl, rfl, rfl, rfl, rfl⟩, ?_⟩
          rw [recvOf_append]
          by_cases h : j = i <;> simp [recvOf, h, resultNotifs]
        | error e =>
          subst h4
          simp only [step, Bool.not_true, Bool.false_eq_true, if_false]
          refine ⟨⟨rfl, rfl, rfl, rfl⟩, ?_⟩
          rw [recvOf_append]
          by_cases h : j = i <;> simp [recvOf, h, resultNotifs]
      have := ih _ hstep.1
      rw [this.1, hstep.2, this.2]
      refine ⟨?_, rfl⟩
      by_cases h : j = i
      · subst h
        simp only [if_true, List.count_cons_self, List.append_assoc]
        rw [reps_succ]
      · have hne : (Event.subscribe j == Event.subscribe i) = false := by
          simp only [beq_eq_false_iff_ne, ne_eq, Event.subscribe.injEq]; exact h
        simp [h]

/-- before the action has run -/
def Fresh {α} (s : State α) : Prop :=
  s.stopped = false ∧ s.invocations = 0 ∧ s.exception = none

theorem before_done {α} (func : Except Err α) (s : State α) (hf : Fresh s) (evs : List Event) (i : Nat) :
    recvOf (evs.foldl (step func) s).outs i =
      recvOf s.outs i ++
        (if Event.run ∈ evs then reps (s.observers.count i + evs.count (.subscribe i)) (resultNotifs func) else []) ∧
    (evs.foldl (step func) s).invocations = (if Event.run ∈ evs then 1 else 0) := by
  induction evs generalizing s with
  | nil => simp [hf.2.1]
  | cons e r ih =>
    obtain ⟨h1, h2, h3⟩ := hf
    simp only [List.foldl_cons]
    cases e with
    | run =>
      have hdone : Done func (step func s .run) ∧
          recvOf (step func s .run).outs i = recvOf s.outs i ++ reps (s.observers.count i) (resultNotifs func) := by
        have hfl := recvOf_flush func s.observers i
        cases func with
        | ok v =>
          simp only [step, h2, Nat.lt_irrefl, if_false]
          refine ⟨⟨rfl, rfl, rfl, h3, rfl⟩, ?_⟩
          rw [recvOf_append]; simp only at hfl; rw [hfl]
        | error e =>
          simp only [step, h2, Nat.lt_irrefl, if_false]
          refine ⟨⟨rfl, rfl, rfl, rfl⟩, ?_⟩
          rw [recvOf_append]; simp only at hfl; rw [hfl]
      have := after_done func _ hdone.1 r i
      rw [this.1, this.2, hdone.2]
      have hne : (Event.run == Event.subscribe i) = false := rfl
      simp [reps_add, List.append_assoc]
    | subscribe j =>
      obtain ⟨st, val, exc, obs, inv, outs⟩ := s
      simp only at h1 h2 h3
      subst h1 h2 h3
      have hstep : step func (⟨false, val, none, obs, 0, outs⟩ : State α) (.subscribe j) = ⟨false, val, none, obs ++ [j], 0, outs⟩ := by
        simp [step]
      rw [hstep]
      have := ih ⟨false, val, none, obs ++ [j], 0, outs⟩ ⟨rfl, rfl, rfl⟩
      rw [this.1, this.2]
      have hmem : (Event.run ∈ Event.subscribe j :: r) ↔ Event.run ∈ r := by simp
      simp only [hmem, and_true]
      congr 1
      split
      · congr 1
        by_cases h : j = i
        · subst h; simp; omega
        · have hne : ¬ (Event.subscribe j = Event.subscribe i) := by
            intro hh; injection hh with hh; exact h hh
          simp [hne, h]
      · rfl

end ToAsync

/-! ### from_callback -/
namespace FromCallback

theorem handler_shape {α} (cfg : Cfg α) (c : List α) :
    (∃ v, handler cfg c = [.next v, .completed]) ∨ (∃ e, handler cfg c = [.error e]) := by
  simp only [handler]
  split
  · split
    · exact Or.inr ⟨_, rfl⟩
    · exact Or.inl ⟨_, rfl⟩
  · split <;> exact Or.inl ⟨_, rfl⟩

theorem deliver_handler {α} (cfg : Cfg α) (c : List α) : deliver false (handler cfg c) = (true, handler cfg c) := by
  rcases handler_shape cfg c with ⟨v, h⟩ | ⟨e, h⟩ <;> rw [h] <;> rfl

theorem subscribeRun_stopped {α} (cfg : Cfg α) (cs : List (List α)) : subscribeRun cfg true cs = [] := by
  induction cs with
  | nil => rfl
  | cons c r ih =>
    have : deliver true (handler cfg c) = (true, []) := by cases handler cfg c <;> rfl
    simp [subscribeRun, this, ih]

theorem subscribeRun_first {α} (cfg : Cfg α) (c : List α) (cs : List (List α)) :
    subscribeRun cfg false (c :: cs) = handler cfg c := by
  simp [subscribeRun, deliver_handler, subscribeRun_stopped]

end FromCallback

end Pure.Bridges

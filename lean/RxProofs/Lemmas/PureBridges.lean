import RxModel.PureBridges
/-! Helper lemmas for C41 (bridges): "frozen once done" invariants for from_future / to_future / run,
the first-terminal reading of a notification list, delivery counting for to_async, from_callback. -/
open Pure.Bridges
namespace Pure.Bridges

/-! ### from_future -/
namespace FromFuture

theorem deliver_done {α} (f : Fut α) (h : f.isDone = true) :
    deliver false (doneNotifs f) = (true, doneNotifs f) := by
  cases f <;> simp_all [Fut.isDone, doneNotifs, deliver, Notif.isTerminal]

theorem deliver_stopped {α} (ns : List (Notif α)) : deliver true ns = (true, []) := by
  cases ns <;> rfl

/-- once the observer is stopped and the future is done nothing moves any more -/
theorem frozen {α} (s : State α) (hs : s.stopped = true) (hf : s.fut.isDone = true) (evs : List (Event α)) :
    (evs.foldl step s).out = s.out ∧ (evs.foldl step s).fut = s.fut := by
  induction evs generalizing s with
  | nil => exact ⟨rfl, rfl⟩
  | cons e r ih =>
    simp only [List.foldl_cons]
    have key : (step s e).stopped = true ∧ (step s e).fut = s.fut ∧ (step s e).out = s.out := by
      obtain ⟨fut, stopped, out, invalid⟩ := s
      simp only at hs hf
      subst hs
      cases e with
      | resolve o => cases fut <;> cases o <;> simp_all [step, Fut.isDone]
      | dispose => cases fut <;> simp_all [step, Fut.isDone]
    obtain ⟨h1, h2, h3⟩ := key
    have := ih (step s e) h1 (by rw [h2]; exact hf)
    rw [this.1, this.2, h2, h3]; exact ⟨rfl, rfl⟩

theorem outcome_done {α} (o : Outcome α) : o.fut.isDone = true := by cases o <;> rfl

theorem resolve_first {α} (o : Outcome α) (rest : List (Event α)) :
    (run .pending (.resolve o :: rest)).out = doneNotifs o.fut ∧ (run .pending (.resolve o :: rest)).fut = o.fut := by
  simp only [run, List.foldl_cons, subscribe, Fut.isDone, Bool.false_eq_true, if_false, step, runDone,
    deliver_done o.fut (outcome_done o), List.nil_append]
  have := frozen (α := α) { fut := o.fut, stopped := true, out := doneNotifs o.fut } rfl (outcome_done o) rest
  exact this

theorem dispose_first {α} (rest : List (Event α)) :
    (run (α := α) .pending (.dispose :: rest)).out = [] ∧ (run (α := α) .pending (.dispose :: rest)).fut = .cancelled := by
  simp only [run, List.foldl_cons, subscribe, Fut.isDone, Bool.false_eq_true, if_false, step, runDone,
    deliver_stopped, List.append_nil]
  exact frozen (α := α) { fut := .cancelled, stopped := true, out := [] } rfl rfl rest

theorem done_before {α} (f : Fut α) (h : f.isDone = true) (evs : List (Event α)) :
    (run f evs).out = doneNotifs f ∧ (run f evs).fut = f := by
  simp only [run, subscribe, h, if_true, runDone, deliver_done f h, List.nil_append]
  exact frozen (α := α) { fut := f, stopped := true, out := doneNotifs f } rfl h evs

end FromFuture

/-! ### to_future / run -/
namespace ToFuture

/-- the first terminal decides; `l` = last value so far -/
def expAux {α} : Option α → List (Notif α) → Fut α
  | _, [] => .pending
  | _, .next v :: r => expAux (some v) r
  | _, .error e :: _ => .exception e
  | some v, .completed :: _ => .result v
  | none, .completed :: _ => .exception noElements

theorem frozen {α} (s : State α) (hs : s.stopped = true) (hf : s.fut.isDone = true) (evs : List (Event α)) :
    (evs.foldl step s).fut = s.fut := by
  induction evs generalizing s with
  | nil => rfl
  | cons e r ih =>
    simp only [List.foldl_cons]
    have key : (step s e).stopped = true ∧ (step s e).fut = s.fut := by
      obtain ⟨hv, last, fut, stopped⟩ := s
      simp only at hs hf
      subst hs
      cases e with
      | src n => simp [step]
      | cancel => cases fut <;> simp_all [step, Fut.isDone]
    rw [ih (step s e) key.1 (by rw [key.2]; exact hf), key.2]

theorem run_aux {α} (l : Option α) (xs : List (Notif α)) :
    ((xs.map Event.src).foldl step ({ hasValue := l.isSome, last := l } : State α)).fut = expAux l xs := by
  induction xs generalizing l with
  | nil => rfl
  | cons n r ih =>
    cases n with
    | next v =>
      simp only [List.map_cons, List.foldl_cons, step, Bool.false_eq_true, if_false, expAux]
      exact ih (some v)
    | error e =>
      simp only [List.map_cons, List.foldl_cons, step, Bool.false_eq_true, if_false, expAux, Fut.isCancelled]
      exact frozen _ rfl rfl _
    | completed =>
      simp only [List.map_cons, List.foldl_cons, step, Bool.false_eq_true, if_false, Fut.isCancelled]
      rw [frozen _ rfl (by cases l <;> rfl)]
      cases l <;> rfl

def values {α} (xs : List (Notif α)) : List α := xs.filterMap fun n => match n with | .next v => some v | _ => none

theorem expAux_eq {α} (l : Option α) (xs : List (Notif α)) :
    expAux l xs =
      (match xs.dropWhile (fun n => !n.isTerminal) with
       | [] => Fut.pending
       | .error e :: _ => .exception e
       | _ :: _ =>
         match (l.toList ++ values (xs.takeWhile (fun n => !n.isTerminal))).getLast? with
         | some v => .result v
         | none => .exception noElements) := by
  induction xs generalizing l with
  | nil => rfl
  | cons n r ih =>
    cases n with
    | next v =>
      have ht : (Notif.next v).isTerminal = false := rfl
      simp only [expAux, List.dropWhile_cons, List.takeWhile_cons, ht, Bool.not_false, if_true]
      rw [ih (some v)]
      have : ∀ (b : List α), (l.toList ++ v :: b).getLast? = ([v] ++ b).getLast? := by
        intro b
        rw [List.getLast?_append, List.singleton_append]
        cases h : (v :: b).getLast? with
        | none => simp at h
        | some w => simp
      simp only [values, List.filterMap_cons, Option.toList_some, this]
    | error e => simp [expAux, Notif.isTerminal]
    | completed =>
      cases l <;> simp [expAux, Notif.isTerminal, values]

theorem run_eq_expected {α} (xs : List (Notif α)) : (run (xs.map Event.src)).fut = expected xs := by
  have h1 := run_aux (α := α) none xs
  have h2 := expAux_eq (α := α) none xs
  simp only [Option.isSome_none, Option.toList_none, List.nil_append] at h1 h2
  simp only [run, expected]
  rw [h1, h2]
  rfl

/-- `run()` -/
def toRR {α} : Fut α → RunResult α
  | .result v => .returns v
  | .exception e => .raises e
  | _ => .blocks

theorem run_frozen {α} (s : RunState α) (hs : s.stopped = true) (xs : List (Notif α)) :
    xs.foldl runStep s = s := by
  induction xs with
  | nil => rfl
  | cons n r ih => simp [List.foldl_cons, runStep, hs, ih]

theorem runBlocking_aux {α} (l : Option α) (xs : List (Notif α)) :
    (let s := xs.foldl runStep ({ hasResult := l.isSome, result := l } : RunState α)
     if !s.done then RunResult.blocks
     else match s.exception with
       | some e => .raises e
       | none => match s.hasResult, s.result with
         | true, some v => .returns v
         | _, _ => .raises noElements) = toRR (expAux l xs) := by
  induction xs generalizing l with
  | nil => rfl
  | cons n r ih =>
    cases n with
    | next v =>
      simp only [List.foldl_cons, runStep, Bool.false_eq_true, if_false, expAux]
      exact ih (some v)
    | error e =>
      simp only [List.foldl_cons, runStep, Bool.false_eq_true, if_false, expAux]
      rw [run_frozen (α := α) { hasResult := l.isSome, result := l, exception := some e, done := true, stopped := true } rfl]
      rfl
    | completed =>
      simp only [List.foldl_cons, runStep, Bool.false_eq_true, if_false]
      rw [run_frozen (α := α) { hasResult := l.isSome, result := l, done := true, stopped := true } rfl]
      cases l <;> rfl

end ToFuture

/-! ### to_async / start -/
namespace ToAsync

def resultNotifs {α} : Except Err α → List (Notif α)
  | .ok r => [.next r, .completed]
  | .error e => [.error e]

def recvOf {α} (outs : List (Nat × Notif α)) (i : Nat) : List (Notif α) :=
  outs.filterMap (fun (j, n) => if j = i then some n else none)

theorem received_eq {α} (s : State α) (i : Nat) : received s i = recvOf s.outs i := rfl

theorem recvOf_append {α} (a b : List (Nat × Notif α)) (i : Nat) : recvOf (a ++ b) i = recvOf a i ++ recvOf b i := by
  simp [recvOf, List.filterMap_append]

def reps {α} (k : Nat) (R : List (Notif α)) : List (Notif α) := (List.replicate k R).flatten

theorem reps_succ {α} (k : Nat) (R : List (Notif α)) : reps (k + 1) R = R ++ reps k R := by
  simp [reps, List.replicate_succ]

theorem reps_add {α} (a b : Nat) (R : List (Notif α)) : reps (a + b) R = reps a R ++ reps b R := by
  induction a with
  | zero => simp [reps]
  | succ a ih => rw [Nat.add_right_comm, reps_succ, ih, reps_succ, List.append_assoc]

/-- delivery at the action: every queued observer gets the result notifications once per registration -/
theorem recvOf_flush {α} (func : Except Err α) (obs : List Nat) (i : Nat) :
    recvOf (match func with
            | .error e => obs.map (fun j => (j, Notif.error e))
            | .ok r => obs.flatMap (fun j => [(j, Notif.next r), (j, Notif.completed)])) i
      = reps (obs.count i) (resultNotifs func) := by
  induction obs with
  | nil => cases func <;> simp [recvOf, reps]
  | cons j r ih =>
    cases func with
    | error e =>
      simp only [List.map_cons, recvOf, List.filterMap_cons] at ih ⊢
      by_cases h : j = i
      · subst h; simp only [if_true, List.count_cons_self, reps_succ]; rw [ih]; rfl
      · have : (j == i) = false := by simp [h]
        simp only [h, if_false, List.count_cons, this, Bool.false_eq_true, Nat.add_zero]; exact ih
    | ok v =>
      simp only [List.flatMap_cons, recvOf, List.filterMap_append, List.filterMap_cons, List.filterMap_nil] at ih ⊢
      by_cases h : j = i
      · subst h; simp only [if_true, List.count_cons_self, reps_succ]; rw [ih]; rfl
      · have : (j == i) = false := by simp [h]
        simp only [h, if_false, List.count_cons, this, Bool.false_eq_true, Nat.add_zero, List.nil_append]; exact ih

/-- the AsyncSubject after the action has run -/
def Done {α} (func : Except Err α) (s : State α) : Prop :=
  s.stopped = true ∧ s.observers = [] ∧ s.invocations = 1 ∧
    (match func with
     | .ok r => s.exception = none ∧ s.value = some r
     | .error e => s.exception = some e)

theorem after_done {α} (func : Except Err α) (s : State α) (hd : Done func s) (evs : List Event) (i : Nat) :
    recvOf (evs.foldl (step func) s).outs i = recvOf s.outs i ++ reps (evs.count (.subscribe i)) (resultNotifs func) ∧
    (evs.foldl (step func) s).invocations = 1 := by
  induction evs generalizing s with
  | nil => simp [reps, hd.2.2.1]
  | cons e r ih =>
    obtain ⟨h1, h2, h3, h4⟩ := hd
    simp only [List.foldl_cons]
    cases e with
    | run =>
      have hs : step func s .run = s := by simp [step, h3]
      rw [hs]
      have := ih s ⟨h1, h2, h3, h4⟩
      have hne : (Event.run == Event.subscribe i) = false := rfl
      simpa [List.count_cons, hne] using this
    | subscribe j =>
      have hstep : Done func (step func s (.subscribe j)) ∧
          recvOf (step func s (.subscribe j)).outs i =
            recvOf s.outs i ++ (if j = i then resultNotifs func else []) := by
        obtain ⟨st, val, exc, obs, inv, outs⟩ := s
        simp only at h1 h2 h3 h4
        subst h1 h2 h3
        cases func with
        | ok v =>
          obtain ⟨h4a, h4b⟩ := h4
          subst h4a h4b
          simp only [step, Bool.not_true, Bool.false_eq_true, if_false]
          refine ⟨⟨rfl, rfl, rfl, rfl, rfl⟩, ?_⟩
          rw [recvOf_append]
          by_cases h : j = i <;> simp [recvOf, h, resultNotifs]
        | error e =>
          subst h4
          simp only [step, Bool.not_true, Bool.false_eq_true, if_false]
          refine ⟨⟨rfl, rfl, rfl, rfl⟩, ?_⟩
          rw [recvOf_append]
          by_cases h : j = i <;> simp [recvOf, h, resultNotifs]
      have := ih _ hstep.1
      rw [this.1, hstep.2, this.2]
      refine ⟨?_, rfl⟩
      by_cases h : j = i
      · subst h
        simp only [if_true, List.count_cons_self, List.append_assoc]
        rw [reps_succ]
      · have hne : (Event.subscribe j == Event.subscribe i) = false := by
          simp only [beq_eq_false_iff_ne, ne_eq, Event.subscribe.injEq]; exact h
        simp [h]

/-- before the action has run -/
def Fresh {α} (s : State α) : Prop :=
  s.stopped = false ∧ s.invocations = 0 ∧ s.exception = none

theorem before_done {α} (func : Except Err α) (s : State α) (hf : Fresh s) (evs : List Event) (i : Nat) :
    recvOf (evs.foldl (step func) s).outs i =
      recvOf s.outs i ++
        (if Event.run ∈ evs then reps (s.observers.count i + evs.count (.subscribe i)) (resultNotifs func) else []) ∧
    (evs.foldl (step func) s).invocations = (if Event.run ∈ evs then 1 else 0) := by
  induction evs generalizing s with
  | nil => simp [hf.2.1]
  | cons e r ih =>
    obtain ⟨h1, h2, h3⟩ := hf
    simp only [List.foldl_cons]
    cases e with
    | run =>
      have hdone : Done func (step func s .run) ∧
          recvOf (step func s .run).outs i = recvOf s.outs i ++ reps (s.observers.count i) (resultNotifs func) := by
        have hfl := recvOf_flush func s.observers i
        cases func with
        | ok v =>
          simp only [step, h2, Nat.lt_irrefl, if_false]
          refine ⟨⟨rfl, rfl, rfl, h3, rfl⟩, ?_⟩
          rw [recvOf_append]; simp only at hfl; rw [hfl]
        | error e =>
          simp only [step, h2, Nat.lt_irrefl, if_false]
          refine ⟨⟨rfl, rfl, rfl, rfl⟩, ?_⟩
          rw [recvOf_append]; simp only at hfl; rw [hfl]
      have := after_done func _ hdone.1 r i
      rw [this.1, this.2, hdone.2]
      have hne : (Event.run == Event.subscribe i) = false := rfl
      simp [reps_add, List.append_assoc]
    | subscribe j =>
      obtain ⟨st, val, exc, obs, inv, outs⟩ := s
      simp only at h1 h2 h3
      subst h1 h2 h3
      have hstep : step func (⟨false, val, none, obs, 0, outs⟩ : State α) (.subscribe j) = ⟨false, val, none, obs ++ [j], 0, outs⟩ := by
        simp [step]
      rw [hstep]
      have := ih ⟨false, val, none, obs ++ [j], 0, outs⟩ ⟨rfl, rfl, rfl⟩
      rw [this.1, this.2]
      have hmem : (Event.run ∈ Event.subscribe j :: r) ↔ Event.run ∈ r := by simp
      simp only [hmem, and_true]
      congr 1
      split
      · congr 1
        by_cases h : j = i
        · subst h; simp; omega
        · have hne : ¬ (Event.subscribe j = Event.subscribe i) := by
            intro hh; injection hh with hh; exact h hh
          simp [hne, h]
      · rfl

end ToAsync

/-! ### from_callback -/
namespace FromCallback

theorem handler_shape {α} (cfg : Cfg α) (c : List α) :
    (∃ v, handler cfg c = [.next v, .completed]) ∨ (∃ e, handler cfg c = [.error e]) := by
  simp only [handler]
  split
  · split
    · exact Or.inr ⟨_, rfl⟩
    · exact Or.inl ⟨_, rfl⟩
  · split <;> exact Or.inl ⟨_, rfl⟩

theorem deliver_handler {α} (cfg : Cfg α) (c : List α) : deliver false (handler cfg c) = (true, handler cfg c) := by
  rcases handler_shape cfg c with ⟨v, h⟩ | ⟨e, h⟩ <;> rw [h] <;> rfl

theorem subscribeRun_stopped {α} (cfg : Cfg α) (cs : List (List α)) : subscribeRun cfg true cs = [] := by
  induction cs with
  | nil => rfl
  | cons c r ih =>
    have : deliver true (handler cfg c) = (true, []) := by cases handler cfg c <;> rfl
    simp [subscribeRun, this, ih]

theorem subscribeRun_first {α} (cfg : Cfg α) (c : List α) (cs : List (List α)) :
    subscribeRun cfg false (c :: cs) = handler cfg c := by
  simp [subscribeRun, deliver_handler, subscribeRun_stopped]

end FromCallback


/-! ### run(): producer thread × waiting thread -/
namespace RunLatch

/-- what every non-latch field looks like -/
def core {α} (sh : Shared α) : Option α × Bool × Option Err × Bool := (sh.result, sh.hasResult, sh.exception, sh.done)

theorem pstep_latch {α} (sh : Shared α) : core (pstep sh .setLatch) = core sh := rfl

/-- shape of the producer program: once `done` has been written, only `latch.set()` follows -/
theorem after_done_only_latch {α} (xs : List (Notif α)) :
    ∀ (pre : List (PStep α)) (p : PStep α) (rem : List (PStep α)) (sh0 : Shared α),
      compile xs = pre ++ p :: rem → sh0.done = false → (pre.foldl pstep sh0).done = true → p = .setLatch := by
  induction xs with
  | nil => intro pre p rem sh0 h; simp [compile] at h
  | cons n r ih =>
    intro pre p rem sh0 h h0 hd
    cases n with
    | next v =>
      simp only [compile] at h
      match pre, h with
      | [], h => simp [h0] at hd
      | [a], h =>
        simp only [List.cons_append, List.nil_append, List.cons.injEq] at h
        obtain ⟨rfl, _⟩ := h
        simp [pstep, h0] at hd
      | a :: b :: pre', h =>
        simp only [List.cons_append, List.cons.injEq] at h
        obtain ⟨rfl, rfl, h⟩ := h
        exact ih pre' p rem (pstep (pstep sh0 (.setResult v)) .setHasResult) h h0 (by simpa using hd)
    | error e =>
      simp only [compile] at h
      match pre, h with
      | [], h => simp [h0] at hd
      | [a], h =>
        simp only [List.cons_append, List.nil_append, List.cons.injEq] at h
        obtain ⟨rfl, _⟩ := h
        simp [pstep, h0] at hd
      | [a, b], h =>
        simp only [List.cons_append, List.nil_append, List.cons.injEq] at h
        exact h.2.2.1.symm
      | a :: b :: c :: pre', h => simp at h
    | completed =>
      simp only [compile] at h
      match pre, h with
      | [], h => simp [h0] at hd
      | [a], h =>
        simp only [List.cons_append, List.nil_append, List.cons.injEq] at h
        exact h.2.1.symm
      | a :: b :: pre', h => simp at h

theorem done_mono {α} (l : List (PStep α)) (sh : Shared α) (h : sh.done = true) : (l.foldl pstep sh).done = true := by
  induction l generalizing sh with
  | nil => exact h
  | cons p r ih => exact ih _ (by cases p <;> simp [pstep, h])

theorem outcome_core {α} (a b : Shared α) (h : core a = core b) : outcome a = outcome b := by
  simp only [core, Prod.mk.injEq] at h
  obtain ⟨h1, h2, h3, _⟩ := h
  simp [outcome, h1, h2, h3]

/-- the waiter's local knowledge is consistent with the shared cells -/
def WInv {α} (s : Sys α) : Prop :=
  match s.w with
  | .checkDone => True
  | .waiting => True
  | .readExc => s.sh.done = true
  | .readHas => s.sh.done = true ∧ s.sh.exception = none
  | .readRes => s.sh.done = true ∧ s.sh.exception = none ∧ s.sh.hasResult = true
  | .finished r => s.sh.done = true ∧ r = outcome s.sh

def Inv {α} (xs : List (Notif α)) (s : Sys α) : Prop :=
  (∃ pre, compile xs = pre ++ s.rem ∧ s.sh = pre.foldl pstep {}) ∧ WInv s

theorem inv_wstep {α} (xs : List (Notif α)) (s : Sys α) (h : Inv xs s) : Inv xs (wstep s) := by
  obtain ⟨hp, hw⟩ := h
  obtain ⟨sh, rem, w⟩ := s
  refine ⟨?_, ?_⟩
  · cases w <;> simp only [wstep] <;> (try split) <;> (try split) <;> exact hp
  · cases w with
    | checkDone => simp only [wstep]; split <;> simp_all [WInv]
    | waiting => simp only [wstep]; split <;> simp_all [WInv]
    | readExc =>
      simp only [WInv] at hw
      simp only [wstep]; split <;> simp_all [WInv, outcome]
    | readHas =>
      simp only [WInv] at hw
      simp only [wstep]; split <;> simp_all [WInv, outcome]
    | readRes =>
      simp only [WInv] at hw
      simp only [wstep]; split <;> simp_all [WInv, outcome]
    | finished r => exact hw

theorem inv_pstep {α} (xs : List (Notif α)) (s : Sys α) (h : Inv xs s) : Inv xs (pstepSys s) := by
  obtain ⟨⟨pre, hc, hs⟩, hw⟩ := h
  obtain ⟨sh, rem, w⟩ := s
  cases rem with
  | nil => exact ⟨⟨pre, hc, hs⟩, hw⟩
  | cons p r =>
    simp only at hc hs
    refine ⟨⟨pre ++ [p], by simpa [pstepSys] using hc, by simp [pstepSys, hs]⟩, ?_⟩
    -- if the waiter already saw `done`, the producer's step can only be `latch.set()`
    have key : sh.done = true → p = .setLatch := fun hd =>
      after_done_only_latch xs pre p r {} hc rfl (by rw [← hs]; exact hd)
    cases w with
    | checkDone => trivial
    | waiting => trivial
    | readExc => simp only [WInv] at hw ⊢; rw [key hw]; simpa [pstepSys, pstep] using hw
    | readHas => simp only [WInv] at hw ⊢; rw [key hw.1]; simpa [pstepSys, pstep] using hw
    | readRes => simp only [WInv] at hw ⊢; rw [key hw.1]; simpa [pstepSys, pstep] using hw
    | finished r' =>
      simp only [WInv] at hw ⊢
      rw [key hw.1]
      refine ⟨by simpa [pstepSys, pstep] using hw.1, ?_⟩
      rw [hw.2]; exact outcome_core _ _ rfl

theorem inv_run {α} (xs : List (Notif α)) (sched : List Bool) : Inv xs (run xs sched) := by
  have h0 : Inv xs ({ rem := compile xs } : Sys α) := ⟨⟨[], rfl, rfl⟩, trivial⟩
  simp only [run]
  generalize ({ rem := compile xs } : Sys α) = s at h0
  induction sched generalizing s with
  | nil => exact h0
  | cons b r ih =>
    simp only [List.foldl_cons]
    apply ih
    cases b
    · exact inv_wstep xs s h0
    · exact inv_pstep xs s h0

/-- once `done` is visible, the rest of the producer program cannot change what the waiter reads -/
theorem core_final {α} (xs : List (Notif α)) (pre rem : List (PStep α)) (hc : compile xs = pre ++ rem)
    (hd : (pre.foldl pstep ({} : Shared α)).done = true) :
    core ((compile xs).foldl pstep {}) = core (pre.foldl pstep {}) := by
  rw [hc, List.foldl_append]
  induction rem generalizing pre with
  | nil => rfl
  | cons p r ih =>
    have hp : p = .setLatch := after_done_only_latch xs pre p r {} hc rfl hd
    subst hp
    have := ih (pre ++ [.setLatch]) (by simpa using hc) (by simpa [pstep] using hd)
    simp only [List.foldl_append, List.foldl_cons, List.foldl_nil] at this ⊢
    rw [this]; rfl

/-- sequential reading of the producer program = the fold of `run()`'s callbacks -/
theorem seq_rel {α} (xs : List (Notif α)) (sh : Shared α) (rs : ToFuture.RunState α)
    (h : sh.result = rs.result ∧ sh.hasResult = rs.hasResult ∧ sh.exception = rs.exception ∧ sh.done = rs.done)
    (hd : rs.done = false) (hst : rs.stopped = false) :
    let sh' := (compile xs).foldl pstep sh
    let rs' := xs.foldl ToFuture.runStep rs
    sh'.result = rs'.result ∧ sh'.hasResult = rs'.hasResult ∧ sh'.exception = rs'.exception ∧ sh'.done = rs'.done := by
  induction xs generalizing sh rs with
  | nil => exact h
  | cons n r ih =>
    obtain ⟨h1, h2, h3, h4⟩ := h
    cases n with
    | next v =>
      simp only [compile, List.foldl_cons, ToFuture.runStep, hst, Bool.false_eq_true, if_false]
      exact ih _ _ ⟨rfl, rfl, h3, h4⟩ hd (by first | exact hst | rfl)
    | error e =>
      simp only [compile, List.foldl_cons, List.foldl_nil, ToFuture.runStep, hst, Bool.false_eq_true, if_false]
      rw [ToFuture.run_frozen _ rfl]
      exact ⟨h1, h2, rfl, rfl⟩
    | completed =>
      simp only [compile, List.foldl_cons, List.foldl_nil, ToFuture.runStep, hst, Bool.false_eq_true, if_false]
      rw [ToFuture.run_frozen _ rfl]
      exact ⟨h1, h2, h3, rfl⟩

theorem outcome_eq_runBlocking {α} (xs : List (Notif α))
    (hd : ((compile xs).foldl pstep ({} : Shared α)).done = true) :
    outcome ((compile xs).foldl pstep ({} : Shared α)) = ToFuture.runBlocking xs := by
  have := seq_rel xs ({} : Shared α) ({} : ToFuture.RunState α) ⟨rfl, rfl, rfl, rfl⟩ rfl rfl
  simp only at this
  obtain ⟨h1, h2, h3, h4⟩ := this
  simp only [ToFuture.runBlocking, outcome, ← h1, ← h2, ← h3, ← h4, hd]
  cases ((compile xs).foldl pstep ({} : Shared α)).exception <;>
    cases ((compile xs).foldl pstep ({} : Shared α)).hasResult <;>
    cases ((compile xs).foldl pstep ({} : Shared α)).result <;> simp

/-- whatever the interleaving, a `run()` that returns or raises does what the sequential reading says -/
theorem finished_correct {α} (xs : List (Notif α)) (sched : List Bool) (r : ToFuture.RunResult α)
    (h : (run xs sched).w = .finished r) : r = ToFuture.runBlocking xs := by
  obtain ⟨⟨pre, hc, hs⟩, hw⟩ := inv_run xs sched
  simp only [WInv, h] at hw
  obtain ⟨hd, rfl⟩ := hw
  rw [hs] at hd
  have hcore := core_final xs pre _ hc hd
  rw [← outcome_eq_runBlocking xs (by
    have := congrArg (fun c => c.2.2.2) hcore
    simp only [core] at this; rw [this]; exact hd)]
  rw [hs]; exact (outcome_core _ _ hcore).symm

theorem finished_not_blocks {α} (xs : List (Notif α)) (sched : List Bool) (r : ToFuture.RunResult α)
    (h : (run xs sched).w = .finished r) : ToFuture.runBlocking xs ≠ .blocks := by
  obtain ⟨⟨pre, hc, hs⟩, hw⟩ := inv_run xs sched
  simp only [WInv, h] at hw
  obtain ⟨hd, _⟩ := hw
  rw [hs] at hd
  have hcore := core_final xs pre _ hc hd
  have hfd : ((compile xs).foldl pstep ({} : Shared α)).done = true := by
    have := congrArg (fun c => c.2.2.2) hcore
    simp only [core] at this; rw [this]; exact hd
  rw [← outcome_eq_runBlocking xs hfd]
  simp only [outcome]
  split
  · simp
  · split
    · split <;> simp
    · simp

/-- the producer program of a sequence with a terminal ends with `done` and the latch set -/
theorem final_done_latch {α} (xs : List (Notif α)) (sh : Shared α) (h : xs.any Notif.isTerminal = true) :
    ((compile xs).foldl pstep sh).done = true ∧ ((compile xs).foldl pstep sh).latch = true := by
  induction xs generalizing sh with
  | nil => simp at h
  | cons n r ih =>
    cases n with
    | next v =>
      simp only [List.any_cons, Notif.isTerminal, Bool.false_or] at h
      simpa [compile] using ih _ h
    | error e => simp [compile, pstep]
    | completed => simp [compile, pstep]

/-- no lost wake-up: with `done` and the latch set, five steps of the waiting thread finish `run()` -/
theorem waiter_finishes {α} (s : Sys α) (hd : s.sh.done = true) (hl : s.sh.latch = true) :
    ∃ r, (wstep (wstep (wstep (wstep (wstep s))))).w = .finished r := by
  obtain ⟨sh, rem, w⟩ := s
  simp only at hd hl
  cases w <;> cases he : sh.exception <;> cases hh : sh.hasResult <;> cases hr : sh.result <;>
    simp [wstep, hd, hl, he, hh, hr]

end RunLatch

end Pure.Bridges

import RxProofs.Lemmas.AggOps
/-!
# Closed forms of the folds used by the aggregates: reduce = scan + last, pure callbacks, extrema for a
total preorder, dict last-wins.
-/

namespace Agg

theorem foldlM_pure {α β} (g : β → α → β) (xs : List α) (a : β) :
    xs.foldlM (fun a x => (Except.ok (g a x) : Except Err β)) a = .ok (xs.foldl g a) := by
  induction xs generalizing a with
  | nil => rfl
  | cons x xs ih => simp only [List.foldlM_cons, List.foldl_cons, bind, Except.bind]; exact ih _

theorem filterC_pure {α} (q : α → Bool) (xs : List α) (t : Ending) :
    filterC (fun x => (.ok (q x) : Except Err Bool)) xs t = (xs.filter q, t) := by
  induction xs with
  | nil => rfl
  | cons x xs ih =>
    simp only [filterC, List.filter_cons]
    cases h : q x <;> simp [ih]

theorem mapC_pure {α β} (g : α → β) (xs : List α) (t : Ending) :
    mapC (fun x => (.ok (g x) : Except Err β)) xs t = (xs.map g, t) := by
  induction xs with
  | nil => rfl
  | cons x xs ih => simp [mapC, ih]

/-- scan from an existing accumulation `a`, then `last`: the fold, at completion -/
theorem lastRef_scanC_some {α β} (f : β → α → Except Err β) (seed : Option β) (inj : α → β) (a : β)
    (xs : List α) (t : Ending) :
    atEnd (scanC f seed inj (some a) xs t).2
        [.next ((scanC f seed inj (some a) xs t).1.getLast?.getD a), .completed]
      = foldRef (xs.foldlM f a) id t := by
  induction xs generalizing a with
  | nil => simp [scanC, foldRef, pure, Except.pure]
  | cons x xs ih =>
    simp only [scanC, scanProj, List.foldlM_cons]
    cases h : f a x with
    | error e => simp [foldRef, bind, Except.bind]
    | ok v =>
      simp only [bind, Except.bind, List.getLast?_cons, Option.getD_some]
      exact ih v

/-- **scan then last(_or_default)**: nothing seen ⇒ default / no-elements at completion; otherwise the fold
started by the first projection. -/
theorem lastRef_scanC {α β} (f : β → α → Except Err β) (seed : Option β) (inj : α → β) (d : Option β)
    (xs : List α) (t : Ending) :
    lastRef d (scanC f seed inj none xs t).1 (scanC f seed inj none xs t).2
      = match xs with
        | [] => atEnd t (valueOrDefault none d)
        | x :: xs' => foldRef ((scanProj f seed inj none x).bind (fun v => xs'.foldlM f v)) id t := by
  cases xs with
  | nil => simp [scanC, lastRef]
  | cons x xs =>
    simp only [scanC]
    cases h : scanProj f seed inj none x with
    | error e => simp [lastRef, foldRef, Except.bind]
    | ok v =>
      simp only [lastRef, List.getLast?_cons, valueOrDefault, Except.bind]
      exact lastRef_scanC_some f seed inj v xs t

/-! ### extrema for a comparer induced by a total preorder -/

section Extrema
variable {α κ : Type} (k : α → κ) (c : κ → κ → Int) (le : κ → κ → Bool)

/-- the pure step (no raising callbacks) -/
theorem extremaStep_pure (s : Option κ × List α) (x : α) :
    extremaStep (fun x => .ok (k x)) (fun a b => .ok (c a b)) s x
      = .ok (match s.1 with
             | none => (some (k x), s.2 ++ [x])
             | some lk =>
               let s1 : Option κ × List α := if c (k x) lk > 0 then (some (k x), []) else s
               if c (k x) lk ≥ 0 then (s1.1, s1.2 ++ [x]) else s1) := by
  unfold extremaStep
  cases h : s.1 <;> simp

/-- Invariant of `extrema_by` over the consumed prefix `p` when the comparer is induced by the total
preorder `le` (`c a b > 0 ↔ ¬ a ≤ b`, `c a b ≥ 0 ↔ b ≤ a`): `last_key` is a greatest key, attained in `p`,
and `items` are exactly the elements of `p` whose key is greatest, in order. -/
theorem extrema_preorder_from
    (hgt : ∀ a b, c a b > 0 ↔ le a b = false) (hge : ∀ a b, c a b ≥ 0 ↔ le b a = true)
    (htot : ∀ a b, le a b = true ∨ le b a = true) (htr : ∀ a b d, le a b = true → le b d = true → le a d = true)
    (p xs : List α) (lk : κ) (items : List α)
    (hmax : ∀ y ∈ p, le (k y) lk = true) (hatt : ∃ z ∈ p, le lk (k z) = true)
    (hitems : items = p.filter (fun x => le lk (k x))) :
    (xs.foldlM (extremaStep (fun x => .ok (k x)) (fun a b => (.ok (c a b) : Except Err Int))) (some lk, items))
      = .ok ((xs.foldl (fun (m : κ) x => if le (k x) m then m else k x) lk |> some,
              (p ++ xs).filter (fun x => (p ++ xs).all (fun y => le (k y) (k x))))) := by
  induction xs generalizing p lk items with
  | nil =>
    simp only [List.foldlM_nil, List.foldl_nil, List.append_nil, pure, Except.pure]
    congr 2
    rw [hitems]
    apply List.filter_congr
    intro x hx
    obtain ⟨z, hz, hlz⟩ := hatt
    rw [Bool.eq_iff_iff]
    simp only [List.all_eq_true]
    constructor
    · intro h y hy; exact htr _ _ _ (hmax y hy) h
    · intro h; exact htr _ _ _ hlz (h z hz)
  | cons x xs ih =>
    rw [List.foldlM_cons, extremaStep_pure]
    simp only [bind, Except.bind, List.foldl_cons]
    have hpx : p ++ x :: xs = (p ++ [x]) ++ xs := by simp
    rw [hpx]
    by_cases h1 : c (k x) lk > 0
    · -- strictly greater: new key, items restart
      have hnle : le (k x) lk = false := (hgt _ _).1 h1
      have hge' : c (k x) lk ≥ 0 := by omega
      simp only [h1, hge', if_true, hnle, Bool.false_eq_true, if_false, List.nil_append]
      have hlkx : le lk (k x) = true := by
        rcases htot lk (k x) with h | h
        · exact h
        · rw [hnle] at h; cases h
      apply ih (p ++ [x]) (k x) [x]
      · intro y hy
        rcases List.mem_append.1 hy with hy | hy
        · exact htr _ _ _ (hmax y hy) hlkx
        · simp at hy; subst hy
          rcases htot (k y) (k y) with h | h <;> exact h
      · exact ⟨x, by simp, by rcases htot (k x) (k x) with h | h <;> exact h⟩
      · rw [List.filter_append]
        have : p.filter (fun y => le (k x) (k y)) = [] := by
          rw [List.filter_eq_nil_iff]
          intro y hy hxy
          have := htr _ _ _ hxy (hmax y hy)
          rw [hnle] at this; cases this
        rw [this]
        have hxx : le (k x) (k x) = true := by rcases htot (k x) (k x) with h | h <;> exact h
        simp [hxx]
    · by_cases h2 : c (k x) lk ≥ 0
      · -- equal: appended
        have hlex : le (k x) lk = true := by
          cases h : le (k x) lk
          · exact absurd ((hgt _ _).2 h) h1
          · rfl
        have hlkx : le lk (k x) = true := (hge _ _).1 h2
        simp only [h1, h2, if_true, if_false, hlex]
        apply ih (p ++ [x]) lk (items ++ [x])
        · intro y hy
          rcases List.mem_append.1 hy with hy | hy
          · exact hmax y hy
          · simp at hy; subst hy; exact hlex
        · obtain ⟨z, hz, hlz⟩ := hatt
          exact ⟨z, List.mem_append_left _ hz, hlz⟩
        · rw [List.filter_append, hitems]; simp [hlkx]
      · -- smaller: ignored
        have hlex : le (k x) lk = true := by
          cases h : le (k x) lk
          · exact absurd ((hgt _ _).2 h) h1
          · rfl
        have hnlkx : le lk (k x) = false := by
          cases h : le lk (k x)
          · rfl
          · exact absurd ((hge _ _).2 h) h2
        simp only [h1, h2, if_false, hlex, if_true]
        apply ih (p ++ [x]) lk items
        · intro y hy
          rcases List.mem_append.1 hy with hy | hy
          · exact hmax y hy
          · simp at hy; subst hy; exact hlex
        · obtain ⟨z, hz, hlz⟩ := hatt
          exact ⟨z, List.mem_append_left _ hz, hlz⟩
        · rw [List.filter_append, hitems]; simp [hnlkx]

theorem extrema_preorder
    (hgt : ∀ a b, c a b > 0 ↔ le a b = false) (hge : ∀ a b, c a b ≥ 0 ↔ le b a = true)
    (htot : ∀ a b, le a b = true ∨ le b a = true) (htr : ∀ a b d, le a b = true → le b d = true → le a d = true)
    (xs : List α) :
    ∃ m, (xs.foldlM (extremaStep (fun x => .ok (k x)) (fun a b => (.ok (c a b) : Except Err Int))) (none, []))
      = .ok (m, xs.filter (fun x => xs.all (fun y => le (k y) (k x)))) := by
  cases xs with
  | nil => exact ⟨none, rfl⟩
  | cons x xs =>
    rw [List.foldlM_cons, extremaStep_pure]
    simp only [bind, Except.bind, List.nil_append]
    have hxx : le (k x) (k x) = true := by rcases htot (k x) (k x) with h | h <;> exact h
    have := extrema_preorder_from k c le hgt hge htot htr [x] xs (k x) [x]
      (by simp [hxx]) ⟨x, by simp, hxx⟩ (by simp [hxx])
    exact ⟨_, by simpa using this⟩
end Extrema

/-! ### dict: last write wins -/

def dictGet {κ ν} (eq : κ → κ → Bool) (m : List (κ × ν)) (q : κ) : Option ν :=
  (m.find? (fun kv => eq kv.1 q)).map (·.2)

/-- `d = {}; for k, v in kvs: d[k] = v` -/
def dictOf {κ ν} (eq : κ → κ → Bool) (kvs : List (κ × ν)) : List (κ × ν) :=
  kvs.foldl (fun m kv => dictSet eq m kv.1 kv.2) []

theorem dictGet_dictSet {κ ν} (eq : κ → κ → Bool)
    (hsymm : ∀ a b, eq a b = true → eq b a = true) (htr : ∀ a b d, eq a b = true → eq b d = true → eq a d = true)
    (m : List (κ × ν)) (k' : κ) (v : ν) (q : κ) :
    dictGet eq (dictSet eq m k' v) q = if eq k' q then some v else dictGet eq m q := by
  induction m with
  | nil => simp only [dictSet, dictGet, List.find?_cons, List.find?_nil]; cases eq k' q <;> rfl
  | cons kv m ih =>
    obtain ⟨k0, v0⟩ := kv
    simp only [dictSet]
    by_cases h0 : eq k0 k' = true
    · simp only [h0, if_true, dictGet, List.find?_cons]
      by_cases hq : eq k0 q = true
      · have : eq k' q = true := htr _ _ _ (hsymm _ _ h0) hq
        simp [hq, this]
      · have : ¬ eq k' q = true := fun h => hq (htr _ _ _ h0 h)
        simp only [Bool.not_eq_true] at hq this
        simp [hq, this]
    · simp only [h0, if_false, Bool.false_eq_true]
      simp only [dictGet, List.find?_cons] at ih ⊢
      by_cases hq : eq k0 q = true
      · have : ¬ eq k' q = true := fun h => h0 (htr _ _ _ hq (hsymm _ _ h))
        simp only [Bool.not_eq_true] at this
        simp [hq, this]
      · simp only [Bool.not_eq_true] at hq
        simp only [hq]
        exact ih

theorem dictFold_last_wins {κ ν} (eq : κ → κ → Bool)
    (hsymm : ∀ a b, eq a b = true → eq b a = true) (htr : ∀ a b d, eq a b = true → eq b d = true → eq a d = true)
    (kvs m : List (κ × ν)) (q : κ) :
    dictGet eq (kvs.foldl (fun m kv => dictSet eq m kv.1 kv.2) m) q
      = ((kvs.reverse.find? (fun kv => eq kv.1 q)).map (·.2)).or (dictGet eq m q) := by
  induction kvs generalizing m with
  | nil => simp
  | cons kv kvs ih =>
    simp only [List.foldl_cons, List.reverse_cons, List.find?_append]
    rw [ih, dictGet_dictSet eq hsymm htr]
    cases h1 : List.find? (fun kv => eq kv.1 q) kvs.reverse with
    | some r => simp
    | none => cases h2 : eq kv.1 q <;> simp [h2]

theorem dictOf_last_wins {κ ν} (eq : κ → κ → Bool)
    (hsymm : ∀ a b, eq a b = true → eq b a = true) (htr : ∀ a b d, eq a b = true → eq b d = true → eq a d = true)
    (kvs : List (κ × ν)) (q : κ) :
    dictGet eq (dictOf eq kvs) q = (kvs.reverse.find? (fun kv => eq kv.1 q)).map (·.2) := by
  have := dictFold_last_wins eq hsymm htr kvs [] q
  simpa [dictOf, dictGet] using this

theorem dictStep_pure {α κ ν} (eq : κ → κ → Bool) (k : α → κ) (v : α → ν) (xs : List α) (m : List (κ × ν)) :
    xs.foldlM (dictStep eq (fun x => .ok (k x)) (fun x => (.ok (v x) : Except Err ν))) m
      = .ok ((xs.map (fun x => (k x, v x))).foldl (fun m kv => dictSet eq m kv.1 kv.2) m) := by
  induction xs generalizing m with
  | nil => rfl
  | cons x xs ih => simp only [List.foldlM_cons, dictStep, bind, Except.bind, List.map_cons, List.foldl_cons]; exact ih _

end Agg

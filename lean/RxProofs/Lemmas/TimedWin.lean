import RxModel.TimedWin
/-! Helper lemmas for C17 (time-window operators). -/

namespace Timed

theorem tb_mono {tf : Bool} {due t t' : Nat} (h : t ≤ t') (hb : timerBefore tf due t = true) :
    timerBefore tf due t' = true := by
  cases tf <;> simp [timerBefore] at hb ⊢ <;> omega

theorem Mono.weaken {α} {lo lo' : Nat} {l : TL α} (h : Mono lo l) (hl : lo' ≤ lo) : Mono lo' l := by
  cases l with
  | nil => trivial
  | cons m r => obtain ⟨t, n⟩ := m; exact ⟨Nat.le_trans hl h.1, h.2⟩

theorem Mono.mem_ge {α} {lo : Nat} {l : TL α} (h : Mono lo l) : ∀ m ∈ l, lo ≤ m.1 := by
  induction l generalizing lo with
  | nil => intro m hm; cases hm
  | cons a r ih =>
    obtain ⟨t, n⟩ := a
    intro m hm
    rcases List.mem_cons.1 hm with rfl | hm
    · exact h.1
    · exact Nat.le_trans h.1 (ih h.2 m hm)

theorem firstTerminal_ge {α} {lo : Nat} {l : TL α} (h : Mono lo l) {T : Nat} {n : Notif α}
    (hf : firstTerminal l = some (T, n)) : lo ≤ T := by
  induction l generalizing lo with
  | nil => simp [firstTerminal] at hf
  | cons a r ih =>
    obtain ⟨t, m⟩ := a
    cases m with
    | next v => exact Nat.le_trans h.1 (ih h.2 (by simpa [firstTerminal] using hf))
    | error e =>
      simp only [firstTerminal, Option.some.injEq, Prod.mk.injEq] at hf
      have := h.1; omega
    | completed =>
      simp only [firstTerminal, Option.some.injEq, Prod.mk.injEq] at hf
      have := h.1; omega

/-! ### take / skip -/

theorem filter_after_nil {α} {tf : Bool} {due t : Nat} {r : TL α} (h : Mono t r)
    (hb : timerBefore tf due t = true) :
    r.filter (fun m => !timerBefore tf due m.1) = [] := by
  rw [List.filter_eq_nil_iff]
  intro m hm
  have := tb_mono (Mono.mem_ge h m hm) hb
  simp [this]

theorem twt_run_eq_spec {α} (tf : Bool) (due fireAt : Nat) (msgs : TL α) (lo : Nat) (h : Mono lo msgs) :
    twtRun tf due fireAt msgs = twtSpec tf due fireAt msgs := by
  induction msgs generalizing lo with
  | nil => simp [twtRun, twtSpec, conform, hasTerminal]
  | cons a r ih =>
    obtain ⟨t, n⟩ := a
    by_cases hb : timerBefore tf due t = true
    · have := filter_after_nil h.2 hb
      simp [twtRun, twtSpec, hb, this, conform, hasTerminal]
    · have ih' := ih t h.2
      simp only [Bool.not_eq_true] at hb
      cases n with
      | next v =>
        simp only [twtRun, hb, Bool.false_eq_true, if_false, ih', twtSpec, List.filter_cons, Bool.not_false,
          if_true, conform, hasTerminal, List.any_cons, isNext, Bool.not_true, Bool.false_or]
        split <;> rename_i hc <;> simp [hc]
      | error e => simp [twtRun, twtSpec, hb, conform, hasTerminal, isNext]
      | completed => simp [twtRun, twtSpec, hb, conform, hasTerminal, isNext]

theorem swt_run_eq_spec {α} (tf : Bool) (due : Nat) (msgs : TL α) (lo : Nat) (isOpen : Bool) (h : Mono lo msgs)
    (ho : isOpen = true → timerBefore tf due lo = true) :
    swtRun tf due isOpen msgs = swtSpec tf due msgs := by
  induction msgs generalizing lo isOpen with
  | nil => simp [swtRun, swtSpec, conform]
  | cons a r ih =>
    obtain ⟨t, n⟩ := a
    have hopen : (isOpen || timerBefore tf due t) = timerBefore tf due t := by
      cases isOpen with
      | false => simp
      | true => simp [tb_mono h.1 (ho rfl)]
    cases n with
    | next v =>
      have ih' := ih t (timerBefore tf due t) h.2 (fun x => x)
      simp only [swtSpec] at ih'
      simp only [swtRun, hopen, ih', swtSpec, conform, List.filter_cons, isNext, Bool.not_true, Bool.false_or]
      cases timerBefore tf due t <;> simp [swtOnNext, at_]
    | error e => simp [swtRun, swtSpec, conform, isNext]
    | completed => simp [swtRun, swtSpec, conform, isNext]

/-! ### take_last_with_time -/

theorem popOld_filter {α} (d now T : Nat) (hT : now ≤ T) (q : List (Nat × α)) :
    (popOld d now q).filter (fun e => keepFixed T e.1 d) = q.filter (fun e => keepFixed T e.1 d) := by
  induction q with
  | nil => rfl
  | cons a q ih =>
    obtain ⟨t, v⟩ := a
    by_cases h : t + d ≤ now
    · have : keepFixed T t d = false := by simp [keepFixed]; omega
      simp [popOld, h, ih, this]
    · simp [popOld, h]

/-- the run from an arbitrary queue, in declarative form -/
def tlwtG {α} (d : Nat) (q : List (Nat × α)) (msgs : TL α) : TL α :=
  match firstTerminal msgs with
  | none => []
  | some (T, .completed) =>
    ((q ++ nexts msgs).filter (fun e => keepFixed T e.1 d)).map (fun e => (T, Notif.next e.2)) ++ [(T, .completed)]
  | some (T, n) => [(T, n)]

theorem tlwt_run_eq_G {α} (d : Nat) (msgs : TL α) (q : List (Nat × α)) (lo : Nat) (h : Mono lo msgs) :
    tlwtRun keepFixed d q msgs = tlwtG d q msgs := by
  induction msgs generalizing q lo with
  | nil => simp [tlwtRun, tlwtG, firstTerminal]
  | cons a r ih =>
    obtain ⟨t, n⟩ := a
    cases n with
    | next x =>
      rw [tlwtRun, ih _ t h.2]
      simp only [tlwtG, firstTerminal, nexts]
      cases hf : firstTerminal r with
      | none => rfl
      | some Tn =>
        obtain ⟨T, n⟩ := Tn
        have hT : t ≤ T := firstTerminal_ge h.2 hf
        cases n with
        | next v => rfl
        | error e => rfl
        | completed =>
          simp only [tlwtOnNext, List.filter_append, popOld_filter d t T hT, List.append_assoc]
          rw [← List.filter_append, List.singleton_append]
    | error e => simp [tlwtRun, tlwtG, firstTerminal]
    | completed => simp [tlwtRun, tlwtG, firstTerminal, nexts, tlwtOnCompleted, at_]

/-! ### skip_last_with_time -/

def SortedQ {α} (q : List (Nat × α)) : Prop := q.Pairwise (fun a b => a.1 ≤ b.1)

/-- the drain loop pops a prefix, every popped element is old enough -/
theorem drain_split {α} (d now : Nat) (L : List (Nat × α)) :
    ∃ pre, L = pre ++ (slwtDrain d now L).2 ∧ (slwtDrain d now L).1 = pre.map (fun e => Notif.next e.2)
      ∧ ∀ e ∈ pre, e.1 + d ≤ now := by
  induction L with
  | nil => exact ⟨[], by simp [slwtDrain]⟩
  | cons a L ih =>
    obtain ⟨t, v⟩ := a
    by_cases h : t + d ≤ now
    · obtain ⟨pre, h1, h2, h3⟩ := ih
      refine ⟨(t, v) :: pre, ?_, ?_, ?_⟩
      · simp only [slwtDrain, h, if_true, List.cons_append]; rw [← h1]
      · simp [slwtDrain, h, h2]
      · intro e he
        rcases List.mem_cons.1 he with rfl | he
        · exact h
        · exact h3 e he
    · exact ⟨[], by simp [slwtDrain, h]⟩

/-- on a time-sorted queue nothing old enough is left behind -/
theorem drain_rest_young {α} (d now : Nat) (L : List (Nat × α)) (hs : SortedQ L) :
    ∀ e ∈ (slwtDrain d now L).2, now < e.1 + d := by
  induction L with
  | nil => simp [slwtDrain]
  | cons a L ih =>
    obtain ⟨t, v⟩ := a
    have hs' := List.pairwise_cons.1 hs
    by_cases h : t + d ≤ now
    · simpa [slwtDrain, h] using ih hs'.2
    · simp only [slwtDrain, h, if_false]
      intro e he
      rcases List.mem_cons.1 he with rfl | he
      · simp only; omega
      · have := hs'.1 e he; simp only at this; omega

theorem drain_rest_sublist {α} (d now : Nat) (L : List (Nat × α)) : (slwtDrain d now L).2.Sublist L := by
  obtain ⟨pre, h1, _, _⟩ := drain_split d now L
  conv => rhs; rw [h1]
  exact List.sublist_append_right _ _

theorem drain_filter_old {α} (d now : Nat) (L : List (Nat × α)) (hs : SortedQ L) :
    (slwtDrain d now L).1 = (L.filter (fun e => decide (e.1 + d ≤ now))).map (fun e => Notif.next e.2) := by
  obtain ⟨pre, h1, h2, h3⟩ := drain_split d now L
  have hy := drain_rest_young d now L hs
  rw [h2]
  conv => rhs; rw [h1]
  rw [List.filter_append]
  have e1 : pre.filter (fun e => decide (e.1 + d ≤ now)) = pre := by
    rw [List.filter_eq_self]; intro e he; simpa using h3 e he
  have e2 : (slwtDrain d now L).2.filter (fun e => decide (e.1 + d ≤ now)) = [] := by
    rw [List.filter_eq_nil_iff]; intro e he; have := hy e he; simp; omega
  rw [e1, e2, List.append_nil]

theorem drain_filter_young {α} (d now : Nat) (L : List (Nat × α)) (hs : SortedQ L) :
    (slwtDrain d now L).2 = L.filter (fun e => decide (now < e.1 + d)) := by
  obtain ⟨pre, h1, h2, h3⟩ := drain_split d now L
  have hy := drain_rest_young d now L hs
  conv => rhs; rw [h1]
  rw [List.filter_append]
  have e1 : pre.filter (fun e => decide (now < e.1 + d)) = [] := by
    rw [List.filter_eq_nil_iff]; intro e he; have := h3 e he; simp; omega
  have e2 : (slwtDrain d now L).2.filter (fun e => decide (now < e.1 + d)) = (slwtDrain d now L).2 := by
    rw [List.filter_eq_self]; intro e he; simpa using hy e he
  rw [e1, e2, List.nil_append]

/-- the element values a timeline delivers -/
def vals {α} (l : TL α) : List α :=
  l.filterMap (fun m => match m.2 with | .next v => some v | _ => none)

theorem vals_append {α} (a b : TL α) : vals (a ++ b) = vals a ++ vals b := by
  simp [vals, List.filterMap_append]

theorem vals_at_next {α} (t : Nat) (pre : List (Nat × α)) :
    vals (at_ t (pre.map (fun e => Notif.next e.2))) = pre.map (·.2) := by
  induction pre with
  | nil => rfl
  | cons a pre ih => simp [vals, at_] at ih ⊢; exact ih

theorem sortedQ_snoc {α} {q : List (Nat × α)} {t : Nat} (x : α) (hs : SortedQ q) (hq : ∀ e ∈ q, e.1 ≤ t) :
    SortedQ (q ++ [(t, x)]) := by
  unfold SortedQ
  rw [List.pairwise_append]
  refine ⟨hs, List.pairwise_singleton _ _, ?_⟩
  intro a ha b hb
  rw [List.mem_singleton] at hb
  subst hb
  exact hq a ha

theorem slwt_vals {α} (d : Nat) (msgs : TL α) (q : List (Nat × α)) (lo T : Nat) (h : Mono lo msgs)
    (hs : SortedQ q) (hq : ∀ e ∈ q, e.1 ≤ lo) (hf : firstTerminal msgs = some (T, .completed)) :
    vals (slwtRun d q msgs) = ((q ++ nexts msgs).filter (fun e => decide (e.1 + d ≤ T))).map (·.2) := by
  induction msgs generalizing q lo with
  | nil => simp [firstTerminal] at hf
  | cons a r ih =>
    obtain ⟨t, n⟩ := a
    cases n with
    | next x =>
      have hL : SortedQ (q ++ [(t, x)]) := sortedQ_snoc x hs (fun e he => Nat.le_trans (hq e he) h.1)
      have hf' : firstTerminal r = some (T, .completed) := by simpa [firstTerminal] using hf
      have hT : t ≤ T := firstTerminal_ge h.2 hf'
      obtain ⟨pre, h1, h2, h3⟩ := drain_split d t (q ++ [(t, x)])
      have hsub := drain_rest_sublist d t (q ++ [(t, x)])
      have hq' : ∀ e ∈ (slwtDrain d t (q ++ [(t, x)])).2, e.1 ≤ t := by
        intro e he
        have := hsub.subset he
        rcases List.mem_append.1 this with hm | hm
        · exact Nat.le_trans (hq e hm) h.1
        · rw [List.mem_singleton] at hm; subst hm; exact Nat.le_refl _
      have ih' := ih _ t h.2 (List.Pairwise.sublist hsub hL) hq' hf'
      rw [slwtRun, vals_append, ih', h2, vals_at_next]
      have e0 : q ++ nexts ((t, Notif.next x) :: r) = (q ++ [(t, x)]) ++ nexts r := by simp [nexts]
      rw [e0]
      conv => rhs; rw [h1]
      simp only [List.filter_append, List.map_append, List.append_assoc]
      have e1 : pre.filter (fun e => decide (e.1 + d ≤ T)) = pre := by
        rw [List.filter_eq_self]; intro e he; have := h3 e he; simp; omega
      rw [e1]
    | error e => simp [firstTerminal] at hf
    | completed =>
      have hT : t = T := by simpa [firstTerminal] using hf
      subst hT
      simp only [slwtRun, nexts, List.append_nil]
      rw [drain_filter_old d t q hs]
      have : at_ t ((q.filter (fun e => decide (e.1 + d ≤ t))).map (fun e => Notif.next e.2) ++ [Notif.completed])
          = at_ t ((q.filter (fun e => decide (e.1 + d ≤ t))).map (fun e => Notif.next e.2)) ++ [(t, Notif.completed)] := by
        simp [at_]
      rw [this, vals_append, vals_at_next]
      simp [vals]

theorem slwt_run_eq_spec {α} (d : Nat) (msgs : TL α) (E : List (Nat × α)) (P lo : Nat) (h : Mono lo msgs)
    (hE : SortedQ E) (hEP : ∀ e ∈ E, e.1 ≤ P) (hP : P ≤ lo) :
    slwtRun d (E.filter (fun e => decide (P < e.1 + d))) msgs = slwtSpec d E P msgs := by
  induction msgs generalizing E P lo with
  | nil => simp [slwtRun, slwtSpec]
  | cons a r ih =>
    obtain ⟨τ, n⟩ := a
    have hPτ : P ≤ τ := Nat.le_trans hP h.1
    have hq : SortedQ (E.filter (fun e => decide (P < e.1 + d))) := List.Pairwise.sublist List.filter_sublist hE
    have hold : (E.filter (fun e => decide (P < e.1 + d))).filter (fun e => decide (e.1 + d ≤ τ))
        = E.filter (fun e => decide (P < e.1 + d) && decide (e.1 + d ≤ τ)) := by
      rw [List.filter_filter]; apply List.filter_congr; intro e _; exact Bool.and_comm _ _
    cases n with
    | next x =>
      have hL : SortedQ (E.filter (fun e => decide (P < e.1 + d)) ++ [(τ, x)]) :=
        sortedQ_snoc x hq (fun e he => Nat.le_trans (hEP e (List.mem_filter.1 he).1) hPτ)
      have hE' : SortedQ (E ++ [(τ, x)]) := sortedQ_snoc x hE (fun e he => Nat.le_trans (hEP e he) hPτ)
      have hEP' : ∀ e ∈ E ++ [(τ, x)], e.1 ≤ τ := by
        intro e he
        rcases List.mem_append.1 he with hm | hm
        · exact Nat.le_trans (hEP e hm) hPτ
        · rw [List.mem_singleton] at hm; subst hm; exact Nat.le_refl _
      have ih' := ih (E ++ [(τ, x)]) τ τ h.2 hE' hEP' (Nat.le_refl _)
      have hyoung : (E.filter (fun e => decide (P < e.1 + d))).filter (fun e => decide (τ < e.1 + d))
          = E.filter (fun e => decide (τ < e.1 + d)) := by
        rw [List.filter_filter]; apply List.filter_congr; intro e _
        by_cases hc : τ < e.1 + d <;> simp [hc]; omega
      rw [slwtRun, drain_filter_old d τ _ hL, drain_filter_young d τ _ hL]
      simp only [List.filter_append, hold, hyoung]
      rw [← List.filter_append, ih', slwtSpec]
      congr 1
      simp only [at_, List.map_map, List.filter_cons, List.filter_nil]
      by_cases hd : d = 0
      · subst hd; simp [Function.comp_def]
      · have : ¬ (τ + d ≤ τ) := by omega
        simp [hd, this, Function.comp_def]
    | error e => simp [slwtRun, slwtSpec]
    | completed =>
      rw [slwtRun, drain_filter_old d τ _ hq, hold, slwtSpec]
      simp [at_, Function.comp_def]

/-! ### timeout -/

/-- invariant of the reachable states before the fallback took over: not switched, and the single pending timer
was created for the current `_id` -/
def ToOk (s : ToSt) (due fireAt : Nat) (first : Bool) : Prop :=
  s.switched = false ∧ s.timer = some { due := due, fireAt := fireAt, myId := s.id, first := first }

theorem to_run_eq_spec {α} (mode : Due) (cold1 : Bool) (other : Nat → TL α) (msgs : TL α) (s : ToSt)
    (due fireAt : Nat) (first : Bool) (hs : ToOk s due fireAt first) :
    toRun mode cold1 other s msgs = toSpec mode cold1 other due fireAt first msgs := by
  induction msgs generalizing s due fireAt first with
  | nil =>
    obtain ⟨h1, h2⟩ := hs
    simp [toRun, toSpec, h2, toAction]
  | cons a r ih =>
    obtain ⟨t, n⟩ := a
    obtain ⟨h1, h2⟩ := hs
    by_cases hb : timerBefore (first && cold1) due t = true
    · simp [toRun, toSpec, toFire, h2, hb, toAction]
    · simp only [Bool.not_eq_true] at hb
      cases n with
      | next v =>
        have ok : ToOk (toOnNext (α := α) mode t s v).1 (mode.at t) (max (mode.at t) t) false := by
          simp [ToOk, toOnNext, h1, toCreateTimer]
        have ih' := ih _ _ _ _ ok
        simp only [toRun, toFire, h2, hb, Bool.false_eq_true, if_false, toHandle, isNext, if_true, ih', toSpec]
        simp [toOnNext, h1, at_]
      | error e => simp [toRun, toSpec, toFire, h2, hb, toHandle, toOnTerminal, h1, isNext, at_]
      | completed => simp [toRun, toSpec, toFire, h2, hb, toHandle, toOnTerminal, h1, isNext, at_]

theorem toInit_ok (mode : Due) (sub : Nat) : ToOk (toInit mode sub) (mode.at sub) (max (mode.at sub) sub) true := by
  simp [ToOk, toInit, toCreateTimer]

/-- The part of the source the subscriber gets, and the instant of the switch (if any), read off the declarative rule. -/
def toPrefix {α} (mode : Due) (cold1 : Bool) : (due : Nat) → (first : Bool) → TL α → TL α
  | _, _, [] => []
  | due, first, (t, n) :: rest =>
    if timerBefore (first && cold1) due t then []
    else match n with
      | .next v => (t, .next v) :: toPrefix mode cold1 (mode.at t) false rest
      | n => [(t, n)]

def toSwitchAt {α} (mode : Due) (cold1 : Bool) : (due fireAt : Nat) → (first : Bool) → TL α → Option Nat
  | _, fireAt, _, [] => some fireAt
  | due, fireAt, first, (t, n) :: rest =>
    if timerBefore (first && cold1) due t then some fireAt
    else match n with
      | .next _ => toSwitchAt mode cold1 (mode.at t) (max (mode.at t) t) false rest
      | _ => none

theorem toSpec_decomp {α} (mode : Due) (cold1 : Bool) (other : Nat → TL α) (msgs : TL α) (due fireAt : Nat) (first : Bool) :
    toSpec mode cold1 other due fireAt first msgs
      = toPrefix mode cold1 due first msgs ++
        (match toSwitchAt mode cold1 due fireAt first msgs with | some S => other S | none => []) := by
  induction msgs generalizing due fireAt first with
  | nil => simp [toSpec, toPrefix, toSwitchAt]
  | cons a r ih =>
    obtain ⟨t, n⟩ := a
    by_cases hb : timerBefore (first && cold1) due t = true
    · simp [toSpec, toPrefix, toSwitchAt, hb]
    · simp only [Bool.not_eq_true] at hb
      cases n <;> simp [toSpec, toPrefix, toSwitchAt, hb, ih]

theorem toSwitch_prefix_nexts {α} (mode : Due) (cold1 : Bool) (msgs : TL α) (due fireAt : Nat) (first : Bool) (S : Nat)
    (h : toSwitchAt mode cold1 due fireAt first msgs = some S) :
    ∀ m ∈ toPrefix mode cold1 due first msgs, isNext m.2 = true := by
  induction msgs generalizing due fireAt first with
  | nil => simp [toPrefix]
  | cons a r ih =>
    obtain ⟨t, n⟩ := a
    by_cases hb : timerBefore (first && cold1) due t = true
    · simp [toPrefix, hb]
    · simp only [Bool.not_eq_true] at hb
      cases n with
      | next v =>
        simp only [toSwitchAt, hb, Bool.false_eq_true, if_false] at h
        simp only [toPrefix, hb, Bool.false_eq_true, if_false, List.mem_cons]
        intro m hm
        rcases hm with rfl | hm
        · rfl
        · exact ih _ _ _ h m hm
      | error e => simp [toSwitchAt, hb] at h
      | completed => simp [toSwitchAt, hb] at h

theorem toNoSwitch_terminal {α} (mode : Due) (cold1 : Bool) (msgs : TL α) (due fireAt : Nat) (first : Bool)
    (h : toSwitchAt mode cold1 due fireAt first msgs = none) :
    toPrefix mode cold1 due first msgs = conform msgs ∧ hasTerminal (conform msgs) = true := by
  induction msgs generalizing due fireAt first with
  | nil => simp [toSwitchAt] at h
  | cons a r ih =>
    obtain ⟨t, n⟩ := a
    by_cases hb : timerBefore (first && cold1) due t = true
    · simp [toSwitchAt, hb] at h
    · simp only [Bool.not_eq_true] at hb
      cases n with
      | next v =>
        simp only [toSwitchAt, hb, Bool.false_eq_true, if_false] at h
        have := ih _ _ _ h
        refine ⟨by simp [toPrefix, hb, conform, this.1], ?_⟩
        have h2 := this.2
        simp only [hasTerminal] at h2 ⊢
        simp only [conform, List.any_cons, h2, Bool.or_true]
      | error e => simp [toPrefix, hb, conform, hasTerminal, isNext]
      | completed => simp [toPrefix, hb, conform, hasTerminal, isNext]

/-! ### timeout: the deadline rule in terms of gaps -/

/-- the arrival time of the last notification of `pre` (`prev` if there is none) -/
def lastTime {α} : Nat → TL α → Nat
  | prev, [] => prev
  | _, (t, _) :: r => lastTime t r

/-- every notification arrives at most `d` after the previous one (after `prev` for the first) -/
def GapsOk {α} (d : Nat) : Nat → TL α → Prop
  | _, [] => True
  | prev, (t, _) :: r => t ≤ prev + d ∧ GapsOk d t r

theorem to_switch_at_gap {α} (d : Nat) (pre rest : TL α) (prev : Nat) (first : Bool)
    (hn : ∀ m ∈ pre, isNext m.2 = true) (hg : GapsOk d prev pre)
    (hr : rest = [] ∨ ∃ t n r, rest = (t, n) :: r ∧ lastTime prev pre + d < t) :
    toSwitchAt (.rel d) false (prev + d) (prev + d) first (pre ++ rest) = some (lastTime prev pre + d) := by
  induction pre generalizing prev first with
  | nil =>
    rcases hr with rfl | ⟨t, n, r, rfl, hlt⟩
    · simp [toSwitchAt, lastTime]
    · simp only [lastTime] at hlt
      simp [toSwitchAt, lastTime, timerBefore, hlt]
  | cons a pre ih =>
    obtain ⟨t, n⟩ := a
    have hnext := hn (t, n) (List.mem_cons_self ..)
    cases n with
    | next v =>
      have hle : ¬ (prev + d < t) := by have := hg.1; omega
      have := ih t false (fun m hm => hn m (List.mem_cons_of_mem _ hm)) hg.2 (by simpa [lastTime] using hr)
      simp only [List.cons_append, toSwitchAt, Bool.and_false, timerBefore, Bool.false_eq_true, if_false, hle,
        decide_false, Due.at, lastTime]
      rw [Nat.max_eq_left (Nat.le_add_right t d)]
      exact this
    | error e => simp [isNext] at hnext
    | completed => simp [isNext] at hnext

theorem to_no_switch_small_gaps {α} (d : Nat) (pre post : TL α) (T : Nat) (n : Notif α) (prev : Nat) (first : Bool)
    (hn : ∀ m ∈ pre, isNext m.2 = true) (hterm : isNext n = false) (hg : GapsOk d prev (pre ++ [(T, n)])) :
    toSwitchAt (.rel d) false (prev + d) (prev + d) first (pre ++ (T, n) :: post) = none := by
  induction pre generalizing prev first with
  | nil =>
    have hle : ¬ (prev + d < T) := by have := hg.1; omega
    cases n with
    | next v => simp [isNext] at hterm
    | error e => simp [toSwitchAt, timerBefore, hle]
    | completed => simp [toSwitchAt, timerBefore, hle]
  | cons a pre ih =>
    obtain ⟨t, m⟩ := a
    have hnext := hn (t, m) (List.mem_cons_self ..)
    cases m with
    | next v =>
      have hle : ¬ (prev + d < t) := by have := hg.1; omega
      have := ih t false (fun m hm => hn m (List.mem_cons_of_mem _ hm)) hg.2
      simp only [List.cons_append, toSwitchAt, Bool.and_false, timerBefore, Bool.false_eq_true, if_false, hle,
        decide_false, Due.at]
      rw [Nat.max_eq_left (Nat.le_add_right t d)]
      exact this
    | error e => simp [isNext] at hnext
    | completed => simp [isNext] at hnext

end Timed

import RxModel.PipeProducers
/-! Lemmas about the polling loop of `from_iterable` (used by C03 and C14). -/
namespace Pipe

theorem fromIter_disposed {α} (dd : Nat → Bool) (i : Nat) (xs : List α) : fromIter dd i true xs = ([], 0) := by
  cases xs <;> rfl

/-- fromIterable_polls. If the downstream disposes during its k-th `on_next` (and not earlier), the
producer emits exactly the first k+1 elements, pulls exactly k+1 times, and emits no terminal. -/
theorem fromIterable_polls {α} (dd : Nat → Bool) (xs : List α) (k i : Nat)
    (hk : k < xs.length) (hfirst : ∀ j, j < k → dd (i + j) = false) (hd : dd (i + k) = true) :
    fromIter dd i false xs = ((xs.take (k + 1)).map Notif.next, k + 1) := by
  induction xs generalizing k i with
  | nil => simp at hk
  | cons x xs ih =>
    cases k with
    | zero =>
      simp only [Nat.add_zero] at hd
      simp [fromIter, hd, fromIter_disposed]
    | succ k =>
      have h0 : dd i = false := by simpa using hfirst 0 (by omega)
      have := ih k (i + 1) (by simpa using hk)
        (fun j hj => by have := hfirst (j + 1) (by omega); rwa [show i + 1 + j = i + (j + 1) by omega])
        (by rwa [show i + 1 + k = i + (k + 1) by omega])
      simp [fromIter, h0, this]

/-- when nobody disposes, everything is emitted followed by completion, with length+1 pulls. -/
theorem fromIterable_all {α} (dd : Nat → Bool) (xs : List α) (i : Nat) (h : ∀ j, j < xs.length → dd (i + j) = false) :
    fromIter dd i false xs = (xs.map Notif.next ++ [.completed], xs.length + 1) := by
  induction xs generalizing i with
  | nil => rfl
  | cons x xs ih =>
    have h0 : dd i = false := by simpa using h 0 (by simp)
    have := ih (i + 1) (fun j hj => by have := h (j + 1) (by simp; omega); rwa [show i + 1 + j = i + (j + 1) by omega])
    simp [fromIter, h0, this]


end Pipe

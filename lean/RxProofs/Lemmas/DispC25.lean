import RxProofs.Lemmas.DispBase
/-!
# Invariants behind C25 (Disposable, BooleanDisposable, ScheduledDisposable)
-/
namespace Disp

/-! ### Disposable -/

/-- threads that won the test-and-set and have not yet run the action -/
def dWon : DTh → Nat
  | (.won, _) => 1
  | _ => 0

/-- `actions + #threads about to run the action = [is_disposed]`; a returned call implies the flag -/
def DInv (s : Sys DSh DTh) : Prop :=
  s.sh.actions + wsum dWon s.pcs = s.sh.isDisposed.toNat ∧ (0 < s.sh.returned → s.sh.isDisposed = true)

theorem dInv_step (raises : Nat → Bool) (s : Sys DSh DTh) (tid : Nat) (h : DInv s) : DInv (s.step (dStep raises) tid) := by
  apply Sys.step_cases (dStep raises) s tid DInv h
  intro p hp
  obtain ⟨rest, h1, h2⟩ := wsum_split dWon s.pcs tid p hp
  obtain ⟨ha, hr⟩ := h
  rw [h1] at ha
  unfold DInv
  simp only [h2]
  obtain ⟨pc, n⟩ := p
  cases pc with
  | idle =>
    cases n with
    | zero => simp [dStep, dWon] at *; exact ⟨by omega, hr⟩
    | succ n =>
      cases hd : s.sh.isDisposed <;> simp [dStep, dWon, hd] at * <;> omega
  | won =>
    cases hd : s.sh.isDisposed <;> simp [dStep, dWon, hd] at * <;> omega

theorem dInv_init (calls : List Nat) : DInv (dInit calls) := by
  refine ⟨?_, by simp [dInit]⟩
  have : wsum dWon (dInit calls).pcs = 0 := by
    apply wsum_eq_zero; intro a ha; simp [dInit] at ha; obtain ⟨n, _, rfl⟩ := ha; rfl
  rw [this]; simp [dInit]

theorem dInv_run (raises : Nat → Bool) (calls : List Nat) (sched : List Nat) : DInv ((dInit calls).run (dStep raises) sched) :=
  Sys.run_inv (dStep raises) DInv (dInv_step raises) _ sched (dInv_init calls)

/-- one thread, flag already set: every further call is one step and changes nothing but `returned` -/
theorem d_seq_tail (raises : Nat → Bool) (sh : DSh) (n : Nat) (hd : sh.isDisposed = true) :
    let s := (Sys.run (dStep raises) ⟨sh, [(.idle, n)]⟩ (List.replicate n 0))
    s.sh.actions = sh.actions ∧ s.sh.isDisposed = true ∧ s.sh.returned = sh.returned + n ∧ s.pcs = [(.idle, 0)] := by
  induction n generalizing sh with
  | zero => simp [Sys.run, hd]
  | succ n ih =>
    simp only [List.replicate_succ, Sys.run_cons]
    have hs : Sys.step (dStep raises) ⟨sh, [(.idle, n + 1)]⟩ 0
        = ⟨{ sh with returned := sh.returned + 1, log := sh.log ++ [.lock 0, .ret .unit] }, [(.idle, n)]⟩ := by
      simp [Sys.step, dStep, hd]
    rw [hs]
    have := ih { sh with returned := sh.returned + 1, log := sh.log ++ [.lock 0, .ret .unit] } hd
    simp only at this ⊢
    obtain ⟨a, b, c, d⟩ := this
    exact ⟨a, b, by omega, d⟩

/-! ### BooleanDisposable -/

def BInv (s : Sys BSh Nat) : Prop :=
  s.sh.isDisposed = decide (0 < s.sh.calls) ∧ ∀ e ∈ s.sh.log, e = .wr ∨ e = .ret .unit

theorem bInv_step (s : Sys BSh Nat) (tid : Nat) (h : BInv s) : BInv (s.step bStep tid) := by
  apply Sys.step_cases bStep s tid BInv h
  intro p _
  obtain ⟨h1, h2⟩ := h
  cases p with
  | zero => exact ⟨h1, h2⟩
  | succ n =>
    refine ⟨by simp [bStep], ?_⟩
    intro e he
    simp [bStep] at he
    rcases he with he | he | he
    · exact h2 e he
    · exact Or.inl he
    · exact Or.inr he

/-! ### ScheduledDisposable -/

def sPend : SPc → Nat
  | .pend _ => 1
  | _ => 0

/-- the wrapped resource is in exactly one place: still assigned, in a worker's hand, or disposed -/
def SInv (s : Sys SSh SPc) : Prop :=
  s.sh.cnt + wsum sPend s.pcs + s.sh.sadCurrent.isSome.toNat = 1 ∧
  s.sh.cnt = s.sh.byWorker ∧
  (0 < s.sh.started → s.sh.sadDisposed = true ∧ 0 < s.sh.queued) ∧
  (s.sh.sadDisposed = true → s.sh.sadCurrent = none) ∧
  (s.sh.sadCurrent = none → 0 < s.sh.started)

theorem sInv_step (s : Sys SSh SPc) (tid : Nat) (h : SInv s) : SInv (s.step sStep tid) := by
  apply Sys.step_cases sStep s tid SInv h
  intro p hp
  obtain ⟨rest, h1, h2⟩ := wsum_split sPend s.pcs tid p hp
  obtain ⟨ha, hb, hc, hd, he⟩ := h
  rw [h1] at ha
  unfold SInv
  simp only [h2]
  cases p with
  | caller n =>
    cases n with
    | zero => simp only [sStep, sPend] at *; exact ⟨ha, hb, hc, hd, he⟩
    | succ n =>
      simp only [sStep, sPend] at *
      exact ⟨ha, hb, fun h => ⟨(hc h).1, by omega⟩, hd, he⟩
  | waiting k =>
    simp only [sPend] at ha
    by_cases hk : k < s.sh.queued
    · cases hsd : s.sh.sadDisposed
      · cases hcur : s.sh.sadCurrent
        · have := (hc (he hcur)).1; simp [hsd] at this
        · simp only [sStep, hk, hsd, hcur, if_true, sPend, Bool.false_eq_true, if_false]
          simp only [hcur, Option.isSome_some, Bool.toNat_true] at ha
          refine ⟨by simp; omega, hb, fun _ => ⟨trivial, by omega⟩, fun _ => trivial, fun _ => by omega⟩
      · have hq := hd hsd
        simp only [sStep, hk, hsd, if_true, sPend]
        exact ⟨ha, hb, fun _ => ⟨trivial, by omega⟩, fun _ => hd hsd, fun _ => by omega⟩
    · simp only [sStep, hk, if_false, sPend]; exact ⟨ha, hb, hc, hd, he⟩
  | pend i =>
    simp only [sStep, sPend] at *
    exact ⟨by omega, by omega, hc, hd, he⟩
  | done => simp only [sStep, sPend] at *; exact ⟨ha, hb, hc, hd, he⟩

theorem sInv_init (callers : List Nat) (workers : Nat) : SInv (sInit callers workers) := by
  have : wsum sPend (sInit callers workers).pcs = 0 := by
    apply wsum_eq_zero; intro a ha
    simp [sInit] at ha
    rcases ha with ⟨n, _, rfl⟩ | ⟨k, _, rfl⟩ <;> rfl
  refine ⟨by rw [this]; simp [sInit], by simp [sInit], by simp [sInit], by simp [sInit], by simp [sInit]⟩

end Disp

import RxModel.Thr2Timer
/-! # Lemmas for C34 — soundness of the reachable-set argument for `Thr2Timer` -/

namespace Thr2Timer

theorem step_none_of_not_act (c : Cfg) (s : St) (a : Nat) (h : a ∉ acts) : step c s a = none := by
  simp only [acts, List.mem_cons, List.not_mem_nil, or_false, not_or] at h
  obtain ⟨h0, h1, h2, h3⟩ := h
  match a, h0, h1, h2, h3 with
  | a + 4, _, _, _, _ => simp [step, stepL]

theorem closed_step (c : Cfg) (R : List St) (h : Closed c R = true) (s : St) (hs : s ∈ R) (a : Nat) :
    (step c s a).getD s ∈ R := by
  simp only [Closed, Bool.and_eq_true, List.all_eq_true] at h
  by_cases ha : a ∈ acts
  · have := h.2 s hs a ha
    cases hst : step c s a with
    | none => simpa using hs
    | some t => simp only [hst] at this; simpa using this
  · rw [step_none_of_not_act c s a ha]; simpa using hs

theorem closed_run (c : Cfg) (R : List St) (h : Closed c R = true) :
    ∀ (sch : List Nat) (s : St), s ∈ R → run c s sch ∈ R := by
  intro sch
  induction sch with
  | nil => intro s hs; exact hs
  | cons a as ih => intro s hs; exact ih _ (closed_step c R h s hs a)

theorem inv_of_closed (c : Cfg) (R : List St) (P : St → Bool) (h : Closed c R = true)
    (hP : R.all P = true) (sch : List Nat) : P (run c (init c) sch) = true := by
  have hinit : init c ∈ R := by
    simp only [Closed, Bool.and_eq_true] at h
    simpa using h.1
  exact (List.all_eq_true.1 hP) _ (closed_run c R h sch _ hinit)

theorem mem_allCfgs (c : Cfg) : c ∈ allCfgs := by
  obtain ⟨k, i⟩ := c
  cases k <;> cases i <;> decide

/-- the kernel computes the reachable set of every configuration, checks closure and safety of every state -/
theorem reach_ok : allCfgs.all (fun c => Closed c (reach c) && (reach c).all safe) = true := by decide

theorem all_safe (c : Cfg) (sch : List Nat) : safe (run c (init c) sch) = true := by
  have := (List.all_eq_true.1 reach_ok) c (mem_allCfgs c)
  simp only [Bool.and_eq_true] at this
  exact inv_of_closed c (reach c) safe this.1 this.2 sch

end Thr2Timer

/-! # Any number of actions on one event-loop thread: the invariant -/

namespace Thr2LoopN

/-- every item waiting in the loop's local deque is due; an item disposed before its due time is flagged;
nothing has started early or after an early dispose -/
def J (s : St) : Prop :=
  (∀ i ∈ s.ready, s.due i = true) ∧ (∀ i, s.early i = true → s.c i = true) ∧ s.tooEarly = false ∧ s.bad = false

theorem collect_J (s : St) (l : List Nat) (h : J s) : J (collect s l) ∧ (collect s l).pc = s.pc := by
  induction l generalizing s with
  | nil => exact ⟨h, rfl⟩
  | cons i rest ih =>
    simp only [collect]
    split
    · next hd =>
      have := ih { s with dq := set s.dq i true, ready := s.ready ++ [i] }
        ⟨fun j hj => by
            rcases List.mem_append.1 hj with h' | h'
            · exact h.1 j h'
            · simp at h'; subst h'; exact hd,
          h.2.1, h.2.2.1, h.2.2.2⟩
      exact this
    · exact ⟨h, rfl⟩

theorem step_J (c : Cfg) (hc : c.disp = .flag) (s t : St) (a : Act) (h : J s) (hs : step c s a = some t) : J t := by
  simp only [step, Option.map_eq_some_iff] at hs
  obtain ⟨⟨t', l⟩, h1, h2⟩ := hs
  simp only at h2; subst h2
  obtain ⟨hr, he, ht, hb⟩ := h
  cases a with
  | loop =>
    simp only [stepL, loopStep] at h1
    split at h1
    · cases h1
      obtain ⟨⟨a1, a2, a3, a4⟩, _⟩ := collect_J s (heap c s) ⟨hr, he, ht, hb⟩
      exact ⟨a1, a2, a3, a4⟩
    · split at h1
      · next i rest hrd =>
        have hdue : s.due i = true := hr i (by rw [hrd]; simp)
        have hrest : ∀ j ∈ rest, s.due j = true := fun j hj => hr j (by rw [hrd]; simp [hj])
        split at h1
        · cases h1; exact ⟨hrest, he, ht, hb⟩
        · next hci =>
          cases h1
          refine ⟨hrest, he, by simp [startItem, ht, hdue], ?_⟩
          have : s.early i = false := by
            cases hei : s.early i with
            | false => rfl
            | true => exact absurd (he i hei) (by simpa using hci)
          simp [startItem, hb, this]
      · cases h1; exact ⟨hr, he, ht, hb⟩
    · split at h1
      · cases h1; exact ⟨hr, he, ht, hb⟩
      · split at h1 <;> cases h1 <;> exact ⟨hr, he, ht, hb⟩
    · split at h1
      · cases h1; exact ⟨hr, he, ht, hb⟩
      · cases h1
    · split at h1
      · cases h1; exact ⟨hr, he, ht, hb⟩
      · cases h1
    · cases h1
  | tick r =>
    simp only [stepL, Option.some.injEq, Prod.mk.injEq] at h1
    obtain ⟨h1, _⟩ := h1; subst h1
    exact ⟨fun i hi => by simp [hr i hi], he, ht, hb⟩
  | dispose i =>
    simp only [stepL, disposeStep, hc] at h1
    split at h1
    · cases h1
    · cases h1
      refine ⟨hr, fun j hj => ?_, ht, hb⟩
      by_cases hji : j = i
      · subst hji; simp [set]
      · simp only [set, hji, if_false] at hj ⊢; exact he j hj
  | earlyWake =>
    simp only [stepL] at h1
    split at h1
    · cases h1; exact ⟨hr, he, ht, hb⟩
    · cases h1

theorem run_J (c : Cfg) (hc : c.disp = .flag) : ∀ (sch : List Act) (s : St), J s → J (run c s sch) := by
  intro sch
  induction sch with
  | nil => intro s h; exact h
  | cons a as ih =>
    intro s h
    simp only [run]
    cases hs : step c s a with
    | none => simpa using ih s h
    | some t => simpa using ih t (step_J c hc s t a h hs)

theorem init_J : J init := ⟨fun i hi => by simp [init] at hi, fun i hi => by simp [init] at hi, rfl, rfl⟩

end Thr2LoopN

/-! # Periodic scheduling on NewThread/ThreadPool: reachable-set argument -/

namespace Thr2Periodic

theorem step_none_of_not_act (s : St) (a : Nat) (h : a ∉ acts) : step s a = none := by
  simp only [acts, List.mem_cons, List.not_mem_nil, or_false, not_or] at h
  obtain ⟨h0, h1, h2, h4, h5⟩ := h
  match a, h0, h1, h2, h4, h5 with
  | 3, _, _, _, _, _ => simp [step, stepL]
  | a + 6, _, _, _, _, _ => simp [step, stepL]

theorem closed_run (R : List St) (h : Closed R = true) : ∀ (sch : List Nat) (s : St), s ∈ R → run s sch ∈ R := by
  intro sch
  induction sch with
  | nil => intro s hs; exact hs
  | cons a as ih =>
    intro s hs
    refine ih _ ?_
    simp only [Closed, Bool.and_eq_true, List.all_eq_true] at h
    by_cases ha : a ∈ acts
    · have := h.2 s hs a ha
      cases hst : step s a with
      | none => simpa using hs
      | some t => simp only [hst] at this; simpa using this
    · rw [step_none_of_not_act s a ha]; simpa using hs

theorem reach_ok : (Closed reach && reach.all (fun s => !s.bad)) = true := by decide

theorem never_bad (p0 : Bool) (sch : List Nat) : (run (init p0) sch).bad = false := by
  have h := reach_ok
  simp only [Bool.and_eq_true] at h
  have hin : init p0 ∈ reach := by
    have := h.1
    simp only [Closed, Bool.and_eq_true] at this
    cases p0
    · simpa using this.1.1
    · simpa using this.1.2
  have := (List.all_eq_true.1 h.2) _ (closed_run reach h.1 sch _ hin)
  simpa using this

end Thr2Periodic

import RxModel.Thr2Timer
/-! # Lemmas for C34 — soundness of the reachable-set argument for `Thr2Timer` -/

namespace Thr2Timer

theorem step_none_of_not_act (c : Cfg) (s : St) (a : Nat) (h : a ∉ acts) : step c s a = none := by
  simp only [acts, List.mem_cons, List.not_mem_nil, or_false, not_or] at h
  obtain ⟨h0, h1, h2⟩ := h
  match a, h0, h1, h2 with
  | a + 3, _, _, _ => simp [step, stepL]

theorem closed_step (c : Cfg) (R : List St) (h : Closed c R = true) (s : St) (hs : s ∈ R) (a : Nat) :
    (step c s a).getD s ∈ R := by
  simp only [Closed, Bool.and_eq_true, List.all_eq_true] at h
  by_cases ha : a ∈ acts
  · have := h.2 s hs a ha
    cases hst : step c s a with
    | none => simpa using hs
    | some t => simp only [hst] at this; simpa using this
  · rw [step_none_of_not_act c s a ha]; simpa using hs

theorem closed_run (c : Cfg) (R : List St) (h : Closed c R = true) :
    ∀ (sch : List Nat) (s : St), s ∈ R → run c s sch ∈ R := by
  intro sch
  induction sch with
  | nil => intro s hs; exact hs
  | cons a as ih => intro s hs; exact ih _ (closed_step c R h s hs a)

theorem inv_of_closed (c : Cfg) (R : List St) (P : St → Bool) (h : Closed c R = true)
    (hP : R.all P = true) (sch : List Nat) : P (run c (init c) sch) = true := by
  have hinit : init c ∈ R := by
    simp only [Closed, Bool.and_eq_true] at h
    simpa using h.1
  exact (List.all_eq_true.1 hP) _ (closed_run c R h sch _ hinit)

theorem mem_allCfgs (c : Cfg) : c ∈ allCfgs := by
  obtain ⟨k, i⟩ := c
  cases k <;> cases i <;> decide

/-- the kernel computes the reachable set of every configuration, checks closure and safety of every state -/
theorem reach_ok : allCfgs.all (fun c => Closed c (reach c) && (reach c).all safe) = true := by decide

theorem all_safe (c : Cfg) (sch : List Nat) : safe (run c (init c) sch) = true := by
  have := (List.all_eq_true.1 reach_ok) c (mem_allCfgs c)
  simp only [Bool.and_eq_true] at this
  exact inv_of_closed c (reach c) safe this.1 this.2 sch

end Thr2Timer

import RxProofs.Lemmas.CombN
import RxProofs.Lemmas.CombPhase
/-!
# C13 — multi-source combinators follow their pairing rules

All statements are about the trace machines of `RxModel/CombN.lean` started in their subscription state
and fed an ARBITRARY list of tagged events `es` (any interleaving of any per-source sequences, conforming
or not, `dispose` anywhere).  `accepted … es` are the notifications that found their subscription open
(what each source's `AutoDetachObserver` lets through); `valsOf … i` the elements delivered by source `i`.
Because the statements hold for every `es` they hold for every prefix of a run: "at every moment".
-/
open Comb

namespace C13

/-- **zip_kth.** For `n` sources and every event list: every output is an `n`-tuple; the `i`-th component of the
`k`-th output is the `k`-th element delivered by source `i`; and the number of outputs is exactly the minimum of
the numbers of delivered elements — at every moment (the statement holds for every prefix), i.e. the `k`-th tuple
is emitted by the very step in which the last source delivers its `k`-th element. -/
theorem zip_kth {α} (n : Nat) (es : List (Ev α)) :
    let outs := outVals (run (zipM n) (zipInit n) es)
    let D := fun i => valsOf (accepted (zipM n) (zipInit n) es) i
    (∀ t, t ∈ outs → t.length = n) ∧
    (∀ i, i < n → ∀ k, k < outs.length → (outs[k]?).bind (fun (t : List α) => t[i]?) = (D i)[k]?) ∧
    (∀ i, i < n → outs.length ≤ (D i).length) ∧
    (n = 0 ∨ ∃ i, i < n ∧ (D i).length = outs.length) := by
  intro outs D
  have h := zip_run_inv n es (fun _ => []) [] (zipInit n) (zip_init_inv n)
  simp only [List.nil_append] at h
  have hlen := h.len
  have hcol : ∀ i, i < n → (col i outs).length = outs.length ∧ ∀ k : Nat, (col i outs)[k]? = (outs[k]?).bind (fun (t : List α) => t[i]?) :=
    fun i hi => col_get i outs (fun t ht => by rw [hlen t ht]; exact hi)
  refine ⟨hlen, ?_, ?_, ?_⟩
  · intro i hi k hk
    have hD : D i = col i outs ++ _ := h.hist i hi
    rw [hD, List.getElem?_append_left (by rw [(hcol i hi).1]; exact hk)]
    exact ((hcol i hi).2 k).symm
  · intro i hi
    have hD : D i = col i outs ++ _ := h.hist i hi
    rw [hD, List.length_append, (hcol i hi).1]; omega
  · rcases h.emp with h0 | ⟨i, hi, hq⟩
    · exact Or.inl h0
    · right
      refine ⟨i, hi, ?_⟩
      have hD : D i = col i outs ++ _ := h.hist i hi
      rw [hD, hq, List.append_nil, (hcol i hi).1]

/-- **zip_completes_when.** (→) If `completed` goes out then some source's completion was delivered and every element that
source delivered has been paired (it has no buffered element left). (←) Conversely, as soon as a source whose completion
was delivered has no buffered element left, the downstream observer is stopped (the output completed — or had already
terminated). Both for every event list, i.e. at every moment. -/
theorem zip_completes_when {α} (n : Nat) (es : List (Ev α)) :
    let outs := outVals (run (zipM n) (zipInit n) es)
    let acc := accepted (zipM (α := α) n) (zipInit n) es
    (Notif.completed ∈ emits (run (zipM n) (zipInit n) es) →
      ∃ i, i < n ∧ (i, Notif.completed) ∈ acc ∧ (valsOf acc i).length = outs.length) ∧
    (∀ i, i < n → (i, Notif.completed) ∈ acc → (valsOf acc i).length = outs.length →
      (final (zipM (α := α) n) (zipInit n) es).p.done = true) := by
  intro outs acc
  have hz := zip_run_inv n es (fun _ => []) [] (zipInit n) (zip_init_inv n)
  have hc := zc_run n es (fun _ => []) [] [] [] (zipInit n) (zip_init_inv n) (zc_init n)
  simp only [List.nil_append] at hz hc
  have hcol : ∀ i, i < n → (col i outs).length = outs.length :=
    fun i hi => (col_get i outs (fun t ht => by rw [hz.len t ht]; exact hi)).1
  have hlen : ∀ i, i < n → (valsOf acc i).length = outs.length + ((final (zipM (α := α) n) (zipInit n) es).s.q i).length := by
    intro i hi
    have hD : valsOf acc i = col i outs ++ _ := hz.hist i hi
    rw [hD, List.length_append, hcol i hi]
  constructor
  · intro hcomp
    obtain ⟨i, hi, hci, hqi⟩ := hc.fin hcomp
    exact ⟨i, hi, (hc.cmp i hi).mp hci, by rw [hlen i hi, hqi]; simp⟩
  · intro i hi hacc hl
    cases hd : (final (zipM (α := α) n) (zipInit n) es).p.done
    · have hq := hc.nd hd i hi ((hc.cmp i hi).mpr hacc)
      have := hlen i hi
      have : ((final (zipM (α := α) n) (zipInit n) es).s.q i).length = 0 := by omega
      exact absurd (List.length_eq_zero_iff.mp this) hq
    · rfl

/-- non-vacuity: two sources, interleaved, the second one slower; the pair goes out when the second delivers -/
example :
    outVals (run (zipM 2) (zipInit 2)
      [.src 0 (.next 1), .src 0 (.next 2), .src 1 (.next 10), .src 0 (.completed), .src 1 (.next 20), .src 1 (.next 30)])
      = [[1, 10], [2, 20]] := by decide

/-- **cl_latest.** combine_latest over n ≥ 1 sources obeys, for every event list, the declarative rule `clOut`/`clStep`:
walk the delivered notifications remembering the latest element of every source; an element (of whichever source) goes
out — in the step that delivers it — as the tuple of the latest values, provided every source has one by then; nothing
else ever goes out as a value. -/
theorem cl_latest {α} (n : Nat) (hn : 0 < n) (es : List (Ev α)) :
    outVals (run (clM n) (clInit n) es)
      = specRun clStep (clOut n) (fun _ => none) (accepted (clM (α := α) n) (clInit n) es) :=
  spec_run (clM n) (ClInv n) (fun s => s.vals) clStep (clOut n)
    (fun st e h => cl_step_inv n st e h) (fun st e h => cl_step_out n st e h) es _ (cl_init_inv n hn)

/-- **cl_emits_after_all.** As long as some source has not delivered any element, no value goes out. -/
theorem cl_emits_after_all {α} (n : Nat) (hn : 0 < n) (es : List (Ev α)) (i : Nat) (hi : i < n)
    (hnone : valsOf (accepted (clM (α := α) n) (clInit n) es) i = []) :
    outVals (run (clM n) (clInit n) es) = [] := by
  rw [cl_latest n hn es]
  exact cl_spec_silent n i hi _ _ rfl hnone

/-- non-vacuity: nothing before both have a value, then one tuple per element, always the latest values -/
example :
    outVals (run (clM 2) (clInit 2)
      [.src 0 (.next 1), .src 0 (.next 2), .src 1 (.next 10), .src 0 (.next 3), .src 1 .completed, .src 0 (.next 4)])
      = [[2, 10], [3, 10], [4, 10]] := by decide

/-- **wlf_only_primary.** with_latest_from (source 0 = the primary, 1..m the others) obeys the rule `wlfOut`/`wlfStep` for
every event list: a value goes out only in a step that delivers a PRIMARY element, and only if every other source has
delivered a value by then — it is that element followed by the latest values of the others; elements of the other
sources only update what is remembered. Consequently the first components of the outputs form a subsequence of the
primary's delivered elements (each primary element produces at most one output, in order). -/
theorem wlf_only_primary {α} (m : Nat) (es : List (Ev α)) :
    outVals (run (wlfM m) (wlfInit m) es)
      = specRun wlfStep (wlfOut m) (fun _ => none) (accepted (wlfM (α := α) m) (wlfInit m) es) ∧
    ((outVals (run (wlfM m) (wlfInit m) es)).filterMap List.head?).Sublist
      (valsOf (accepted (wlfM (α := α) m) (wlfInit m) es) 0) := by
  have h := spec_run (wlfM (α := α) m) (fun st => st.p.WF) (fun s => s.vals) wlfStep (wlfOut m)
    (fun st e h => step_WF _ st e h) (fun st e h => wlf_step_out m st e h) es _ (wlfInit_WF m)
  refine ⟨h, ?_⟩
  rw [h]; exact wlf_spec_heads m _ _

/-- non-vacuity: elements of source 1 alone emit nothing; primary elements before source 1 has a value are dropped -/
example :
    outVals (run (wlfM 1) (wlfInit 1)
      [.src 0 (.next 1), .src 1 (.next 10), .src 1 (.next 11), .src 0 (.next 2), .src 1 .completed, .src 0 (.next 3)])
      = [[2, 11], [3, 11]] := by decide

/-- **wlf_eq_reference.** with_latest_from = the self-contained reference `wlfRefRun` for EVERY event list: the reference keeps
only the latest value of every other source, which sources have finished and whether the result has finished (no
subscriptions, no plumbing) and reads the tagged events in order — an element of the primary goes out with the latest values
if every other source has one; the first error, or the primary's completion, finishes the result; notifications of finished
sources, of non-sources, and after the end are ignored. Composed with `tlEvents` (cold timelines → the event list:
virtual-time order, simultaneous notifications in SUBSCRIPTION order = the others before the primary) this is the
timeline-level rule the harness calls `wlf_reference`. -/
theorem wlf_eq_reference {α} (m : Nat) (es : List (Ev α)) :
    emits (run (wlfM m) (wlfInit m) es) = wlfRefRun m {} es :=
  wlf_ref_run m es {} (wlfInit m) (wlf_init_sim m)

theorem wlf_timeline_reference {α} (m : Nat) (tls : List (Nat × List (Nat × Notif α))) :
    emits (run (wlfM m) (wlfInit m) ((tlEvents tls).map (·.2))) = wlfRefRun m {} ((tlEvents tls).map (·.2)) :=
  wlf_eq_reference m _

/-- **wlf_phased_only_primary.** The same rule with the subscribe LOOP in the trace (`phased`: a `tick` subscribes the next
source, the others first and the primary last, and sources may notify inside their own subscribe call, between two ticks):
whatever is interleaved, a value goes out only for a primary element delivered when every other source already has a value.
So `of(1,2,3).pipe(with_latest_from(of(10)))` pairs every element with 10, because 10 is delivered before the primary is even
subscribed. -/
theorem wlf_phased_only_primary {α} (m : Nat) (es : List (Ev α)) :
    outVals (run (phased (wlfM m)) (phasedInit {} (wlfInitSubs m)) es)
      = specRun wlfStep (wlfOut m) (fun _ => none)
          (accepted (phased (wlfM (α := α) m)) (phasedInit {} (wlfInitSubs m)) es) :=
  spec_run (phased (wlfM (α := α) m)) (fun st => st.p.WF) (fun s => s.s.vals) wlfStep (wlfOut m)
    (fun st e h => step_WF _ st e h) (fun st e h => wlf_phased_step_out m st e h) es _ (by intro h; simp [phasedInit] at h)

/-- non-vacuity: of(1,2,3).pipe(with_latest_from(of(10))) — ticks are the loop subscribing source 1 (the other), then 0 -/
example :
    outVals (run (phased (wlfM (α := Nat) 1)) (phasedInit {} (wlfInitSubs 1))
      [.tick, .src 1 (.next 10), .src 1 .completed, .tick, .src 0 (.next 1), .src 0 (.next 2), .src 0 (.next 3), .src 0 .completed])
      = [[1, 10], [2, 10], [3, 10]] := by decide

/-- **static_phase_eq_plain.** For every static operator: if no source notifies inside the subscribe loop, the phased machine
is the plain machine preceded by the loop's subscribe effects (so every theorem about the plain machines applies to it). -/
theorem static_phase_eq_plain {σ ι β} (m : Machine σ ι β) (htick : ∀ s d, m.tick s d = (s, [])) (s : σ) (order : List Nat)
    (es : List (Ev ι)) :
    run (phased m) (phasedInit s order) (List.replicate order.length (Ev.tick (ι := ι)) ++ es)
      = order.map Eff.sub ++ run m ⟨s, { done := false, live := order }⟩ es :=
  phased_eq_plain m htick s order es

theorem zip_phase_eq_plain {α} (n : Nat) (es : List (Ev α)) :
    run (phased (zipM (α := α) n)) (phasedInit {} (List.range n)) (List.replicate n (Ev.tick (ι := α)) ++ es)
      = (List.range n).map Eff.sub ++ run (zipM n) (zipInit n) es := by
  simpa [zipInit, startAll] using phased_eq_plain (zipM (α := α) n) (fun _ _ => rfl) {} (List.range n) es

/-- **late_subscription_in_loop_closed.** The subscribe loop does not stop when an earlier source has already terminated the
result from inside its own subscribe call: it goes on subscribing the remaining sources — and each of them is closed in the
same step (the known C03 finding "subscribe loop after a synchronous terminal", as the machines show it). -/
theorem late_subscription_in_loop_closed {σ ι β} (m : Machine σ ι β) (s : σ) (k : Nat) (r : List Nat) (p : Plumb)
    (hd : p.done = true) :
    (step (phased m) ⟨⟨s, k :: r⟩, p⟩ (Ev.tick (ι := ι))).2 = [Eff.sub k, Eff.unsub k] :=
  (phased_late_subscription m s k r p hd).1

/-- non-vacuity: zip of three, source 0 fails inside its subscribe: the error goes out, 1 and 2 are still subscribed and closed at once -/
example :
    run (phased (zipM (α := Nat) 3)) (phasedInit {} (List.range 3)) [.tick, .src 0 (.error "e"), .tick, .src 1 (.next 5), .tick]
      = [.sub 0, .emit (.error "e"), .unsub 0, .sub 1, .unsub 1, .sub 2, .unsub 2] := by decide

/-- **fork_join_last_values.** fork_join obeys, for every event list, the rule `fjOut`/`fjStep` over the delivered
notifications: remember the last element of every source and which sources completed; the completion that makes ALL
sources complete emits the tuple of the last values (every source has one, else only `completed`) followed by
`completed`; a completion of a source that never delivered an element completes at once; an error goes out; nothing else
is ever emitted (in particular no value before the last completion). -/
theorem fork_join_last_values {α} (n : Nat) (es : List (Ev α)) :
    emits (run (fjM n) (fjInit n) es)
      = specRun fjStep (fjOut n) {} (accepted (fjM (α := α) n) (fjInit n) es) :=
  (spec_run_emits (fjM (α := α) n) FjInv fjAbs fjStep (fjOut n)
    (fun st e h => fj_step_inv n st e h) (fun st e h => fj_step_out n st e h) es _ (fj_init_inv n)).1

/-- **fork_join_empty_short_circuit.** If a source completes (while subscribed) without having delivered any element, the
output completes in that very step — whatever the other sources did or will do — and nothing follows. -/
theorem fork_join_empty_short_circuit {α} (n : Nat) (pre post : List (Ev α)) (k : Nat)
    (hk : k ∈ (final (fjM (α := α) n) (fjInit n) pre).p.live)
    (hempty : valsOf (accepted (fjM (α := α) n) (fjInit n) pre) k = []) :
    emits (run (fjM n) (fjInit n) (pre ++ .src k .completed :: post))
      = emits (run (fjM n) (fjInit n) pre) ++ [Notif.completed] := by
  have hsp := spec_run_emits (fjM (α := α) n) FjInv fjAbs fjStep (fjOut n)
    (fun st e h => fj_step_inv n st e h) (fun st e h => fj_step_out n st e h) pre _ (fj_init_inv n)
  have hinv := hsp.2.2
  have hlast : (final (fjM (α := α) n) (fjInit n) pre).s.vals k = none := by
    have := congrArg (fun t => t.last k) hsp.2.1
    simp only [fjAbs] at this
    rw [this, fj_fold_last, hempty]; rfl
  have hhas : (final (fjM (α := α) n) (fjInit n) pre).s.has k = false := by rw [hinv.has k, hlast]; rfl
  have key : ∀ s : FjSt α, s.has k = false → actEmits (fjHandler n s k .completed).2 = [Notif.completed] := by
    intro s hs; simp [fjHandler, hs, actEmits]
  have hacts : actEmits ((fjM (α := α) n).handler (final (fjM (α := α) n) (fjInit n) pre).s k .completed).2 = [Notif.completed] :=
    key _ hhas
  have hd := step_src_done_of_terminal (fjM (α := α) n) _ k .completed hk (by rw [hacts]; rfl)
  rw [run_append, run_cons, emits_append, emits_append, emits_step_src _ _ k _ hinv.wf hk, hacts,
    emits_run_done _ post _ (step_WF _ _ _ hinv.wf) hd]
  simp [cut, Notif.isTerminal]

/-- non-vacuity: last values when both completed; and the short circuit -/
example :
    emits (run (fjM 2) (fjInit 2)
      [.src 0 (.next 1), .src 1 (.next 10), .src 0 (.next 2), .src 0 .completed, .src 1 (.next 11), .src 1 .completed])
      = [.next [2, 11], .completed] := by decide
example :
    emits (run (fjM 2) (fjInit 2) [.src 0 (.next 1), .src 1 .completed, .src 0 (.next 2), .src 0 .completed])
      = [.completed] := by decide

/-- **amb_mirrors_first.** n-ary `rx.amb` (and the binary operator, see `amb2_mirrors_first`): every notification that is
delivered while its source is still subscribed goes out unchanged in the step that delivers it, and all of them come from
ONE source — the first one to notify (everything delivered by the others after that moment is ignored: they are
unsubscribed, `amb_unsub_losers_at_choice`). -/
theorem amb_mirrors_first {α} (n : Nat) (es : List (Ev α)) :
    emits (run (ambM (α := α) n) (ambInit n) es) = (accepted (ambM (α := α) n) (ambInit n) es).map (·.2) ∧
    ∃ w, ∀ kn, kn ∈ accepted (ambM (α := α) n) (ambInit n) es → kn.1 = w :=
  ⟨amb_run_emits n es _ (amb_init_inv n), amb_acc_one_source n es _ (amb_init_inv n)⟩

theorem amb2_mirrors_first {α} (es : List (Ev α)) :
    emits (run (ambM (α := α) 2) amb2Init es) = (accepted (ambM (α := α) 2) amb2Init es).map (·.2) ∧
    ∃ w, ∀ kn, kn ∈ accepted (ambM (α := α) 2) amb2Init es → kn.1 = w :=
  ⟨amb_run_emits 2 es _ amb2_init_inv, amb_acc_one_source 2 es _ amb2_init_inv⟩

/-- **amb_unsub_losers_at_choice.** In any reachable state in which no source has been chosen yet, the step in which a live
source `k` notifies unsubscribes every other live source — in the order in which the nested binary operators dispose them
(`k-1, …, 0, k+1, …, n-1`) and BEFORE the notification is forwarded — makes `k` the choice, and leaves `k` as the only
live source (none, if the notification was terminal). -/
theorem amb_unsub_losers_at_choice {α} (n : Nat) (es : List (Ev α)) (k : Nat) (x : Notif α) :
    let st := final (ambM (α := α) n) (ambInit n) es
    k ∈ st.p.live → st.s.choice = none →
    (step (ambM (α := α) n) st (.src k x)).2
      = ((ambLosers n k).filter (fun j => st.p.live.contains j)).map Eff.unsub ++ [Eff.emit x]
        ++ (if x.isTerminal then [Eff.unsub k] else []) ∧
    (step (ambM (α := α) n) st (.src k x)).1.s.choice = some k ∧
    (step (ambM (α := α) n) st (.src k x)).1.p.live = (if x.isTerminal then [] else [k]) := by
  intro st hk hc
  exact amb_choice_step n st k x (amb_final_inv n es _ (amb_init_inv n)) hk hc

/-- **amb_nested_eq_flat.** `rx.amb(s0, …, s(n-1))` is built as nested binary operators (`ambNestedM`: level j =
amb(left := sj, right := level j-1), each level with its own `choice`, a notification entering at its level and climbing
through the levels above). For every n and every event list the nested machine and the flattened machine `ambM` used by the
other theorems produce exactly the same effects — the same emissions and the same unsubscriptions in the same order. -/
theorem amb_nested_eq_flat {α} (n : Nat) (es : List (Ev α)) :
    run (ambNestedM (α := α) n) (ambNestedInit n) es = run (ambM (α := α) n) (ambInit n) es :=
  amb_nested_run n es (ambNestedInit n) (ambInit n) rfl (by simp [AmbSim, ambInit, ambNestedInit]) (amb_init_inv n)

/-- non-vacuity: three sources, source 1 notifies first: 0 then 2 are unsubscribed, then the element goes out;
a later element of source 0 is ignored; source 1's completion ends it -/
example :
    run (ambM (α := Nat) 3) (ambInit 3) [.src 1 (.next 5), .src 0 (.next 6), .src 1 .completed]
      = [.unsub 0, .unsub 2, .emit (.next 5), .emit .completed, .unsub 1] := by decide

end C13

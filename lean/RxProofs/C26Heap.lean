import RxProofs.Lemmas.DispHeapRef
import RxProofs.Lemmas.DispHeapRcRef
/-!
# C26Heap — the heap model of C02/C03 (`RxModel/PipeHeap.lean`) restricted to one container IS the class semantics

For a heap `leaf_0 … leaf_{k-1}, container` (`Pipe.mkH`), a call history on the container run to completion in the
1-thread instance of the class model of `RxModel/Disp.lean` (the same step functions the C26 theorems are about, and
the ones the correspondence check runs against the real classes) and the corresponding `Pipe.Op` list run by
`Pipe.run` (every op followed by `settle`) agree on

* every leaf's `done` flag  = "that item's `dispose()` was called at least once" (`0 < cnt i`),
* the container's `done` flag = `is_disposed`; its owning edges = the held items while it is live (after its disposal
  the heap keeps the edges, all of whose targets are done; the class holds nothing),
* `released` is never set on these heaps (RefCountDisposable has its own theorem, `refcount_refines_heap`),
* the per-call results: `Res.rejected` exactly where the class raises "Disposable has already been assigned".

So `Pipe.apply` on one container is a proven consequence of the class models, not a separately validated model.
(The heap has flags, not counters: a second disposal of the same item is invisible in it — that is C26's business.)
`Reach f a b` = the single thread reaches `b` from `a` in some number of steps; the final states are quiescent
(`(idle, [])`), hence fixpoints of `Sys.step`, so the number of steps does not matter beyond that.
-/

namespace C26Heap
open Disp Pipe

/-- what `HeapRel` says, flag by flag -/
theorem heapRel_flags (K : Kind) (k : Nat) (dis : Bool) (held : List Nat) (cnt : Nat → Nat) (h : Heap)
    (hr : HeapRel K k dis held cnt h) :
    h.length = k + 1 ∧
    (∀ i, i < k → h[i]? = some { kind := .leaf, done := decide (0 < cnt i) }) ∧
    (∃ co, h[k]? = some { kind := K, done := dis, owned := co } ∧ (dis = false → co = held) ∧
      (dis = true → held = [] ∧ ∀ x ∈ co, x < k ∧ 0 < cnt x)) ∧
    (∀ n ∈ h, n.released = false) := by
  obtain ⟨co, rfl, hco, hl, hd⟩ := hr
  refine ⟨by simp [mkH], ?_, ⟨co, getCont_mkH _ _ _ _ _, hl, fun h => ⟨(hd h).1, fun x hx => ⟨hco x hx, (hd h).2 x hx⟩⟩⟩, ?_⟩
  · intro i hi
    simp [mkH, leafN, List.getElem?_append_left, hi]
  · intro n hn
    simp only [mkH, List.mem_append, List.mem_map, List.mem_range, List.mem_singleton] at hn
    rcases hn with ⟨i, _, rfl⟩ | rfl <;> rfl

/-- **composite_refines_heap.** CompositeDisposable(init) with a history of add / remove / clear / dispose calls. -/
theorem composite_refines_heap (k : Nat) (init : List Nat) (ops : List COp)
    (hinit : ∀ x ∈ init, x < k) (hops : ∀ op ∈ ops, cOk k op) :
    ∃ s', Reach cStep (cInit init [ops]) ⟨s', [(.idle, [])]⟩ ∧
      HeapRel .comp k s'.isDisposed s'.items s'.cnt
        (Pipe.run (mkH .comp k (fun _ => false) false init) (ops.map (cToPipe k))) ∧
      resOf s'.log = Pipe.runRes (mkH .comp k (fun _ => false) false init) (ops.map (cToPipe k)) := by
  have h0 : HeapRel .comp k false init (fun _ => 0) (mkH .comp k (fun _ => false) false init) :=
    ⟨init, by apply mkH_congr; intro i _; simp, hinit, fun _ => rfl, fun h => by cases h⟩
  obtain ⟨s', hreach, hr, evs, hl, hres⟩ := c_hist k ops hops { items := init, given := fun i => init.count i } _ h0
  refine ⟨s', by simpa [cInit] using hreach, hr, ?_⟩
  simp only [List.nil_append] at hl
  rw [hl, hres]

/-- **assign_refines_heap.** SerialDisposable / MultipleAssignmentDisposable / fixed SingleAssignmentDisposable
(`AKind f K` pairs the step function with the heap kind) with a history of assignments and dispose calls; a second
assignment to a live SingleAssignmentDisposable is `Res.rejected` on both sides. -/
theorem assign_refines_heap (f : ASh → ATh → ASh × ATh) (K : Kind) (hfK : AKind f K) (k : Nat) (ops : List AOp)
    (hops : ∀ op ∈ ops, aOk k op) :
    ∃ s', Reach f (aInit [ops]) ⟨s', [(.idle, [])]⟩ ∧
      HeapRel K k s'.isDisposed s'.current.toList s'.cnt
        (Pipe.run (mkH K k (fun _ => false) false []) (ops.map (aToPipe k))) ∧
      resOf s'.log = Pipe.runRes (mkH K k (fun _ => false) false []) (ops.map (aToPipe k)) := by
  have h0 : HeapRel K k false [] (fun _ => 0) (mkH K k (fun _ => false) false []) :=
    ⟨[], by apply mkH_congr; intro i _; simp, by simp, fun _ => rfl, fun h => by cases h⟩
  obtain ⟨s', hreach, hr, evs, hl, hres⟩ := a_hist f K hfK k ops hops {} _ h0
  refine ⟨s', by simpa [aInit] using hreach, hr, ?_⟩
  simp only [List.nil_append] at hl
  rw [hl, hres]

theorem serial_refines_heap (k : Nat) (ops : List AOp) (hops : ∀ op ∈ ops, aOk k op) :
    ∃ s', Reach serStep (aInit [ops]) ⟨s', [(.idle, [])]⟩ ∧
      HeapRel .serial k s'.isDisposed s'.current.toList s'.cnt
        (Pipe.run (mkH .serial k (fun _ => false) false []) (ops.map (aToPipe k))) ∧
      resOf s'.log = Pipe.runRes (mkH .serial k (fun _ => false) false []) (ops.map (aToPipe k)) :=
  assign_refines_heap serStep .serial (Or.inl ⟨rfl, rfl⟩) k ops hops
theorem multi_refines_heap (k : Nat) (ops : List AOp) (hops : ∀ op ∈ ops, aOk k op) :
    ∃ s', Reach madStep (aInit [ops]) ⟨s', [(.idle, [])]⟩ ∧
      HeapRel .multi k s'.isDisposed s'.current.toList s'.cnt
        (Pipe.run (mkH .multi k (fun _ => false) false []) (ops.map (aToPipe k))) ∧
      resOf s'.log = Pipe.runRes (mkH .multi k (fun _ => false) false []) (ops.map (aToPipe k)) :=
  assign_refines_heap madStep .multi (Or.inr (Or.inl ⟨rfl, rfl⟩)) k ops hops
theorem single_refines_heap (k : Nat) (ops : List AOp) (hops : ∀ op ∈ ops, aOk k op) :
    ∃ s', Reach sadStep (aInit [ops]) ⟨s', [(.idle, [])]⟩ ∧
      HeapRel .single k s'.isDisposed s'.current.toList s'.cnt
        (Pipe.run (mkH .single k (fun _ => false) false []) (ops.map (aToPipe k))) ∧
      resOf s'.log = Pipe.runRes (mkH .single k (fun _ => false) false []) (ops.map (aToPipe k)) :=
  assign_refines_heap sadStep .single (Or.inr (Or.inr ⟨rfl, rfl⟩)) k ops hops

/-- **refcount_refines_heap.** RefCountDisposable + InnerDisposable on the heap `underlying leaf, refcount node,
dependents…` (`Pipe.rcH`): a history of get-dependent / dispose-dependent (any earlier handle, repeatedly) /
dispose-primary calls.  Afterwards the heap is exactly
`rcH (underlying disposed) is_primary_disposed is_disposed dependents` — the refcount node's `done` is
`is_primary_disposed`, its `released` is `is_disposed`, the underlying leaf is done iff it was disposed, every
dependent node is an `inner` (done iff disposed) or an inert leaf exactly as the class handed it out — and
`count` = number of live inner nodes (`Pipe.liveInners`). -/
theorem refcount_refines_heap (ops : List ROp) (hv : rValid 0 ops) :
    ∃ s' mine', Reach rStep (rInit [ops]) ⟨s', [⟨.idle, [], mine'⟩]⟩ ∧
      Pipe.run (rcH false false false []) (ops.map rToPipe)
        = rcH (decide (0 < s'.und)) s'.isPrimaryDisposed s'.isDisposed s'.deps ∧
      s'.count = (wsum depLive s'.deps : Int) ∧
      resOf s'.log = Pipe.runRes (rcH false false false []) (ops.map rToPipe) := by
  have h0 : RcRel {} (rcH false false false []) := ⟨rfl, rfl, rfl, rfl⟩
  obtain ⟨s', m', hreach, ⟨hh, hc, _, _⟩, evs, hl, hres⟩ := r_hist ops {} [] _ hv h0
  refine ⟨s', m', by simpa [rInit] using hreach, hh, hc, ?_⟩
  simp only [List.nil_append] at hl
  rw [hl, hres]

/-- the final state reached is a fixpoint: more steps of the thread change nothing -/
theorem quiet_is_fixpoint_c (s : CSh) (n : Nat) :
    (Sys.run cStep ⟨s, [(.idle, [])]⟩ (List.replicate n 0)) = ⟨s, [(.idle, [])]⟩ := by
  induction n with
  | zero => rfl
  | succ n ih => simpa [List.replicate_succ, Sys.run_cons, Sys.step, cStep] using ih

/-! Non-vacuity: both sides computed on a concrete history (kernel evaluation). -/
example :
    let ops : List COp := [.add 2, .remove 0, .dispose, .add 1, .remove 2]
    let s := (cInit [0] [ops]).run cStep (List.replicate 12 0)
    let h := Pipe.run (mkH .comp 3 (fun _ => false) false [0]) (ops.map (cToPipe 3))
    cQuiet s ∧ h.map (·.done) = [decide (0 < s.sh.cnt 0), decide (0 < s.sh.cnt 1), decide (0 < s.sh.cnt 2), s.sh.isDisposed]
      ∧ h.map (·.done) = [true, true, true, true] := by decide

example :
    let ops : List AOp := [.set 0, .set 1, .dispose, .set 2]
    resOf ((aInit [ops]).run sadStep (List.replicate 8 0)).sh.log
      = Pipe.runRes (mkH .single 3 (fun _ => false) false []) (ops.map (aToPipe 3))
    ∧ Pipe.runRes (mkH .single 3 (fun _ => false) false []) (ops.map (aToPipe 3)) = [.ok, .rejected, .ok, .ok] := by decide

example :
    let ops : List ROp := [.get, .get, .dispose, .rel 0, .rel 0, .rel 1, .get, .rel 2]
    let s := ((rInit [ops]).run rStep (List.replicate 20 0)).sh
    rQuiet ((rInit [ops]).run rStep (List.replicate 20 0)) ∧
    Pipe.run (rcH false false false []) (ops.map rToPipe) = rcH (decide (0 < s.und)) s.isPrimaryDisposed s.isDisposed s.deps ∧
    s.und = 1 ∧ s.deps = [Dep.inner false, Dep.inner false, Dep.inert true] := by decide

end C26Heap

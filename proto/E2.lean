/-! Experiment: N-thread interleaving of Disposable.dispose -/
inductive Pc | start | afterLock (run : Bool) | done
deriving DecidableEq, Repr

structure Sys where
  isDisposed : Bool
  actions : Nat
  pcs : List Pc
deriving Repr

def stepThread (isDisposed : Bool) (actions : Nat) : Pc → Bool × Nat × Pc
  | .start => if isDisposed then (isDisposed, actions, .afterLock false) else (true, actions, .afterLock true)
  | .afterLock true => (isDisposed, actions + 1, .done)
  | .afterLock false => (isDisposed, actions, .done)
  | .done => (isDisposed, actions, .done)

def Sys.step (s : Sys) (tid : Nat) : Sys :=
  match s.pcs[tid]? with
  | none => s
  | some pc =>
    let (d, a, pc') := stepThread s.isDisposed s.actions pc
    { isDisposed := d, actions := a, pcs := s.pcs.set tid pc' }

def Sys.run (s : Sys) (sched : List Nat) : Sys := sched.foldl Sys.step s

def pending (pcs : List Pc) : Nat := (pcs.filter (· == .afterLock true)).length

def SInv (s : Sys) : Prop :=
  s.actions + pending s.pcs = s.isDisposed.toNat

theorem pending_set (pcs : List Pc) (tid : Nat) (pc pc' : Pc) (h : pcs[tid]? = some pc) :
    pending (pcs.set tid pc') + (if pc = .afterLock true then 1 else 0)
      = pending pcs + (if pc' = .afterLock true then 1 else 0) := by
  induction pcs generalizing tid with
  | nil => simp at h
  | cons x xs ih =>
    cases tid with
    | zero =>
      simp at h; subst h
      simp only [List.set_cons_zero, pending, List.filter_cons]
      by_cases h1 : x = .afterLock true <;> by_cases h2 : pc' = .afterLock true <;> simp [h1, h2] <;> omega
    | succ n =>
      simp at h
      have := ih n h
      simp only [List.set_cons_succ, pending, List.filter_cons] at *
      by_cases h1 : x = .afterLock true <;> simp [h1] <;> omega

theorem step_inv (s : Sys) (tid : Nat) (h : SInv s) : SInv (s.step tid) := by
  unfold Sys.step
  split
  · exact h
  · rename_i pc hpc
    have hs := fun pc' => pending_set s.pcs tid pc pc' hpc
    unfold SInv at *
    cases pc with
    | start =>
      cases hd : s.isDisposed <;> simp [stepThread, hd] at * <;> have := hs (.afterLock true) <;> have := hs (.afterLock false) <;> simp at * <;> omega
    | afterLock r =>
      cases r <;> simp [stepThread] at * <;> have := hs .done <;> simp at * <;> omega
    | done => simp [stepThread] at *; have := hs .done; simp at *; omega

theorem run_inv (s : Sys) (sched : List Nat) (h : SInv s) : SInv (s.run sched) := by
  induction sched generalizing s with
  | nil => exact h
  | cons t ts ih => exact ih _ (step_inv s t h)

/-- any number of threads, any schedule: action runs at most once -/
theorem action_at_most_once (n : Nat) (sched : List Nat) :
    (Sys.run ⟨false, 0, List.replicate n .start⟩ sched).actions ≤ 1 := by
  have h0 : SInv ⟨false, 0, List.replicate n .start⟩ := by
    simp [SInv, pending, List.filter_replicate]
  have := run_inv _ sched h0
  unfold SInv at this
  have : (Sys.run ⟨false, 0, List.replicate n .start⟩ sched).isDisposed.toNat ≤ 1 := Bool.toNat_le _
  omega
#print axioms action_at_most_once

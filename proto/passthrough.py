import ast, glob, os
res={'pass':[], 'other':[]}
for fn in sorted(glob.glob('/repo/reactivex/operators/_*.py')+glob.glob('/repo/reactivex/operators/connectable/_*.py')):
    t=ast.parse(open(fn).read())
    for node in ast.walk(t):
        if isinstance(node,ast.FunctionDef) and node.name=='subscribe':
            rets=[n for n in ast.walk(node) if isinstance(n,ast.Return) and n.value is not None and not any(n in ast.walk(c) for c in ast.walk(node) if isinstance(c,ast.FunctionDef) and c is not node)]
            kinds=[]
            for r in rets:
                v=r.value
                if isinstance(v,ast.Call) and isinstance(v.func,ast.Attribute) and v.func.attr=='subscribe': kinds.append('src.subscribe')
                else: kinds.append(ast.unparse(v)[:50])
            (res['pass'] if kinds==['src.subscribe'] else res['other']).append((os.path.basename(fn),kinds))
print('pass-through subscribe bodies:',len(res['pass'])); print(sorted({f for f,_ in res['pass']}))
print('others:',len(res['other']))
for f,k in res['other']: print('  ',f,k)

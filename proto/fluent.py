import ast, glob, os, inspect
import reactivex.operators as ops
ALIAS={'do':'do_action','to_list':'to_iterable'}
def norm(expr):
    # returns list of (opname, args, kwargs) if expr is self.pipe(ops.N(...)) or ops.N(...)(self/source) possibly wrapped in cast(...)
    if isinstance(expr,ast.Call) and isinstance(expr.func,ast.Name) and expr.func.id=='cast': return norm(expr.args[1])
    if isinstance(expr,ast.Call):
        f=expr.func
        if isinstance(f,ast.Attribute) and f.attr=='pipe' and len(expr.args)==1:
            a=expr.args[0]
            if isinstance(a,ast.Name): return ('var',a.id)
            return opcall(a)
        if isinstance(f,ast.Call):  # ops.N(...)(source)
            return opcall(f)
        if isinstance(f,ast.Attribute) and isinstance(f.value,ast.Name) and f.value.id=='self':
            return ('selfcall',f.attr,[ast.unparse(x) for x in expr.args])
    return None
def opcall(a):
    if isinstance(a,ast.Call) and isinstance(a.func,ast.Name) and a.func.id=='cast': return opcall(a.args[1])
    if isinstance(a,ast.Call) and isinstance(a.func,ast.Attribute) and isinstance(a.func.value,ast.Name) and a.func.value.id in('ops','_'):
        return ('op',a.func.attr,[ast.unparse(x) for x in a.args],{k.arg:ast.unparse(k.value) for k in a.keywords})
    return None
bad=[];n=0;rows=[]
for fn in sorted(glob.glob('/repo/reactivex/observable/mixins/*.py')):
    t=ast.parse(open(fn).read())
    for c in [x for x in t.body if isinstance(x,ast.ClassDef)]:
        for f in c.body:
            if not isinstance(f,ast.FunctionDef) or f.name.startswith('_'): continue
            if any(isinstance(d,ast.Name) and d.id=='overload' for d in f.decorator_list): continue
            n+=1
            params=[a.arg for a in f.args.args[1:]]+[a.arg for a in f.args.kwonlyargs]+([f.args.vararg.arg] if f.args.vararg else [])
            rets=[]; vars={}
            for node in ast.walk(f):
                if isinstance(node,(ast.Assign,ast.AnnAssign)) and node.value is not None:
                    tg=node.targets[0] if isinstance(node,ast.Assign) else node.target
                    if isinstance(tg,ast.Name):
                        oc=opcall(node.value)
                        if oc: vars[tg.id]=oc
                if isinstance(node,ast.Return): rets.append(norm(node.value))
            rets=[vars.get(r[1]) if r and r[0]=='var' else r for r in rets]
            ok=all(r is not None for r in rets) and len(rets)>=1
            names={r[1] for r in rets if r}
            exp=ALIAS.get(f.name,f.name)
            if not ok or names!={exp}:
                bad.append((os.path.basename(fn),f.name,rets))
            else:
                # check args forwarded are parameters, in op's positional order
                sig=inspect.signature(getattr(ops,exp)) if hasattr(ops,exp) else None
                rows.append((f.name,exp,params,[ (r[2],r[3]) if r[0]=='op' else r[2] for r in rets], list(sig.parameters) if sig else None))
print(n,'methods;',len(bad),'not normalised:')
for b in bad: print('  ',b)
mism=[r for r in rows if r[4] is not None and any(isinstance(x,tuple) and [a.lstrip('*') for a in x[0]]!= [p for p in r[4]][:len(x[0])] and x[0] for x in r[3])]
print('positional-name mismatches (informational):',len(mism))
for r in mism[:40]: print('  ',r[0],r[3],'ops sig',r[4])

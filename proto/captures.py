"""Prototype capture analysis: for every function in reactivex/operators/_*.py and reactivex/observable/*.py,
find 'mutable creations' and classify the scope level at which they are created vs used.
Levels: 0 = module-level factory function body (runs at ops.x(...) for plain factories; at application for @curry_flip),
        1 = application function (inner def taking `source`, when factory is not curry_flip),
        2 = subscribe function (def subscribe(observer, scheduler)),
        3 = handlers (defs nested in subscribe)."""
import ast, sys, glob, os
MUT_CALLS={'iter','map','filter','zip','enumerate','infinite','Subject','ReplaySubject','BehaviorSubject','AsyncSubject','list','dict','set','deque','OrderedDict','CompositeDisposable','SerialDisposable','SingleAssignmentDisposable','MultipleAssignmentDisposable','RefCountDisposable'}
def is_mut_expr(e):
    if isinstance(e,(ast.List,ast.Dict,ast.Set,ast.ListComp,ast.DictComp,ast.SetComp)): return 'container'
    if isinstance(e,ast.GeneratorExp): return 'generator'
    if isinstance(e,ast.Call):
        f=e.func
        name = f.id if isinstance(f,ast.Name) else (f.attr if isinstance(f,ast.Attribute) else None)
        if name in MUT_CALLS: return name
        if isinstance(f,ast.Attribute) and isinstance(f.value,ast.Name) and f.value.id=='itertools': return 'itertools.'+f.attr
    return None
def analyze(fn):
    src=open(fn).read(); tree=ast.parse(src); out=[]
    for top in tree.body:
        if not isinstance(top,ast.FunctionDef): continue
        curry=any((isinstance(d,ast.Name) and d.id=='curry_flip') for d in top.decorator_list)
        # walk nested defs with level tracking
        def walk(fdef, level, env):
            # env: name -> (level_created, kind)
            local=dict(env)
            nonlocals=set()
            for st in fdef.body:
                for node in ast.walk(st) if not isinstance(st,(ast.FunctionDef,)) else []:
                    pass
            # assignments at this level (not inside nested defs)
            def visit(stmts):
                for st in stmts:
                    if isinstance(st,ast.FunctionDef):
                        continue
                    for node in ast.walk(st):
                        if isinstance(node,ast.FunctionDef): continue
                        if isinstance(node,(ast.Assign,ast.AnnAssign)):
                            val=node.value
                            k=is_mut_expr(val) if val is not None else None
                            tg=node.targets if isinstance(node,ast.Assign) else [node.target]
                            for t in tg:
                                if isinstance(t,ast.Name):
                                    if k: local[t.id]=(level,k)
                                    elif t.id in local and local[t.id][0]==level: pass
                                    else:
                                        # scalar cell: track for nonlocal writes
                                        local.setdefault(t.id,(level,'cell'))
            visit(fdef.body)
            # nested defs
            for st in ast.walk(fdef):
                if isinstance(st,ast.FunctionDef) and st is not fdef and st in [n for n in ast.iter_child_nodes(fdef)] + nested_direct(fdef):
                    pass
            for child in nested_direct(fdef):
                # determine level of child
                args=[a.arg for a in child.args.args]
                if child.name=='subscribe' or (len(args)>=1 and args[0] in ('observer','obv')): cl=2
                elif level>=2: cl=3
                elif len(args)>=1 and args[0] in ('source','left','parent','xs'): cl=1 if not curry else 1
                else: cl=level if level<2 else 3
                # uses in child of names from env
                for node in ast.walk(child):
                    if isinstance(node,ast.Nonlocal):
                        for n in node.names:
                            if n in local and local[n][0]<2 and cl>=2:
                                out.append((os.path.basename(fn),top.name,n,local[n][1]+'(nonlocal-written)',local[n][0],cl))
                    if isinstance(node,ast.Name) and isinstance(node.ctx,ast.Load) and node.id in local:
                        lv,k=local[node.id]
                        if k!='cell' and lv<2 and cl>=2 and k not in ('CompositeDisposable',):
                            out.append((os.path.basename(fn),top.name,node.id,k,lv,cl))
                walk(child, cl, local)
        def nested_direct(fdef):
            res=[]
            def rec(stmts):
                for st in stmts:
                    if isinstance(st,ast.FunctionDef): res.append(st)
                    else:
                        for f in ('body','orelse','finalbody','handlers'):
                            if hasattr(st,f):
                                sub=getattr(st,f)
                                if isinstance(sub,list):
                                    rec([x for x in sub if isinstance(x,ast.stmt)]+[y for x in sub if isinstance(x,ast.ExceptHandler) for y in x.body])
            rec(fdef.body); return res
        walk(top, 0, {})
    return sorted(set(out))
files=sorted(glob.glob('/repo/reactivex/operators/_*.py')+glob.glob('/repo/reactivex/observable/*.py')+glob.glob('/repo/reactivex/operators/connectable/_*.py'))
tot=0
for f in files:
    for r in analyze(f):
        print(r); tot+=1
print('flagged',tot,'in',len(files),'files')

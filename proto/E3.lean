inductive Notif (α : Type) | next (v : α) | error (e : Nat) | completed
deriving Repr, DecidableEq
abbrev Timed (α) := List (Nat × Notif α)

/-- after a message at time `t` arrived while `(due, v)` was pending and `due ≥ t` -/
def debMsg {α} (d : Nat) (cont : Option (Nat × α) → Timed α) (pend : Option α) (t : Nat) : Notif α → Timed α
  | .next x => cont (some (t + d, x))
  | .error e => [(t, .error e)]
  | .completed => match pend with
    | some v => [(t, .next v), (t, .completed)]
    | none => [(t, .completed)]

def debRun {α} (d : Nat) : Timed α → Option (Nat × α) → Timed α
  | [], none => []
  | [], some (due, v) => [(due, .next v)]
  | (t, n) :: rest, none => debMsg d (debRun d rest) none t n
  | (t, n) :: rest, some (due, v) =>
    if due < t then (due, .next v) :: debMsg d (debRun d rest) none t n
    else debMsg d (debRun d rest) (some v) t n

def debSpec {α} (d : Nat) : Timed α → Timed α
  | [] => []
  | (t, .error e) :: _ => [(t, .error e)]
  | (t, .completed) :: _ => [(t, .completed)]
  | (t, .next x) :: rest =>
    match rest with
    | [] => [(t + d, .next x)]
    | (t', n') :: _ =>
      if t + d < t' then (t + d, .next x) :: debSpec d rest
      else match n' with
        | .next _ => debSpec d rest
        | .error _ => debSpec d rest
        | .completed => (t', .next x) :: debSpec d rest

theorem deb_pending {α} (d t : Nat) (x : α) (rest : Timed α) :
    debRun d rest (some (t + d, x)) = debSpec d ((t, .next x) :: rest) := by
  induction rest generalizing t x with
  | nil => simp [debRun, debSpec]
  | cons hd tl ih =>
    obtain ⟨t', n'⟩ := hd
    by_cases h : t + d < t' <;> cases n' <;> simp [debRun, debSpec, debMsg, h, ih]

theorem deb_eq_spec {α} (d : Nat) (msgs : Timed α) : debRun d msgs none = debSpec d msgs := by
  cases msgs with
  | nil => simp [debRun, debSpec]
  | cons hd tl =>
    obtain ⟨t, n⟩ := hd
    cases n <;> simp [debRun, debMsg, debSpec, deb_pending]
#print axioms deb_eq_spec

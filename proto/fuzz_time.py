import random, sys
import reactivex as rx
from reactivex import operators as ops
from reactivex.testing import TestScheduler, ReactiveTest
on_next, on_completed, on_error = ReactiveTest.on_next, ReactiveTest.on_completed, ReactiveTest.on_error
ERR=Exception('boom')
def gen(rng):
    n=rng.randint(0,6); ts=sorted(rng.randint(201,260) for _ in range(n))
    msgs=[(t,'N',i) for i,t in enumerate(ts)]
    k=rng.random()
    last=ts[-1] if ts else 201
    if k<0.45: msgs.append((rng.randint(last,last+25),'C',None))
    elif k<0.7: msgs.append((rng.randint(last,last+25),'E',None))
    return msgs
def run(msgs, mk):
    s=TestScheduler()
    rec=[on_next(t,v) if k=='N' else on_completed(t) if k=='C' else on_error(t,ERR) for (t,k,v) in msgs]
    xs=s.create_hot_observable(*rec)
    r=s.start(lambda: mk(xs,s))
    out=[]
    for m in r.messages:
        k=m.value.kind
        out.append((int(m.time),k,m.value.value if k=='N' else None))
    return out, xs.subscriptions
# --- reference semantics (hot source; source wins ties unless noted); subscribe at 200, dispose at 1000
def ref_delay(msgs,d):
    out=[]
    for (t,k,v) in msgs:
        if k=='E':
            out=[o for o in out if o[0] < t or (o[0]==t and False)]
            # pending (due >= t) dropped ; due < t delivered
            out.append((t,'E',None)); break
        out.append((t+d,k,v))
        if k=='C': break
    return [o for o in out if o[0] < 1000]
def ref_debounce(msgs,d):
    out=[]; pend=None
    for (t,k,v) in msgs:
        if pend and pend[0] < t: out.append((pend[0],'N',pend[1])); pend=None
        if k=='N': pend=(t+d,v)
        elif k=='E': out.append((t,'E',None)); return out
        else:
            if pend: out.append((t,'N',pend[1]))
            out.append((t,'C',None)); return out
    if pend and pend[0]<1000: out.append((pend[0],'N',pend[1]))
    return out
def ref_throttle_first(msgs,w):
    out=[]; last=None
    for (t,k,v) in msgs:
        if k=='N':
            if last is None or t-last>=w: out.append((t,'N',v)); last=t
        else: out.append((t,k,None)); break
    return out
def ref_take_with_time(msgs,d):
    out=[]; B=200+d
    for (t,k,v) in msgs:
        if t>B: break
        out.append((t,k,v))
        if k!='N': return out
    if B<1000: out.append((B,'C',None))
    return out
def ref_skip_with_time(msgs,d):
    out=[]; B=200+d
    for (t,k,v) in msgs:
        if k=='N':
            if t>B: out.append((t,k,v))
        else: out.append((t,k,None)); break
    return out
def ref_tlwt(msgs,d):   # property: younger than d (age<d)
    out=[]; q=[]
    for (t,k,v) in msgs:
        if k=='N': q.append((t,v))
        elif k=='E': return [(t,'E',None)]
        else: return [(t,'N',v2) for (t2,v2) in q if t-t2<d]+[(t,'C',None)]
    return out
def ref_slwt(msgs,d):
    out=[]; q=[]
    for (t,k,v) in msgs:
        if k=='N':
            q.append((t,v))
            while q and t-q[0][0]>=d: out.append((t,'N',q.pop(0)[1]))
        elif k=='E': out.append((t,'E',None)); return out
        else:
            while q and t-q[0][0]>=d: out.append((t,'N',q.pop(0)[1]))
            out.append((t,'C',None)); return out
    return out
def ref_timeout(msgs,d):
    out=[]; deadline=200+d
    for (t,k,v) in msgs:
        if deadline < t: out.append((deadline,'E',None)); return out
        out.append((t,k,v))
        if k!='N': return out
        deadline=t+d
    if deadline<1000: out.append((deadline,'E',None))
    return out
def ref_sample(msgs,p):
    out=[]; pend=None; done=None; tick=200+p; i=0
    while tick<1000:
        while i<len(msgs) and msgs[i][0]<=tick:
            t,k,v=msgs[i]; i+=1
            if k=='N': pend=v
            elif k=='E': out.append((t,'E',None)); return out
            else: done=t
        if pend is not None: out.append((tick,'N',pend)); pend=None
        if done is not None: out.append((tick,'C',None)); return out
        tick+=p
    return out
CASES=[('delay',lambda d:(lambda xs,s: xs.pipe(ops.delay(d))),ref_delay,[0,1,5,20]),
 ('debounce',lambda d:(lambda xs,s: xs.pipe(ops.debounce(d))),ref_debounce,[1,5,20]),
 ('throttle_first',lambda d:(lambda xs,s: xs.pipe(ops.throttle_first(d))),ref_throttle_first,[1,5,20]),
 ('take_with_time',lambda d:(lambda xs,s: xs.pipe(ops.take_with_time(d))),ref_take_with_time,[0,5,30,100]),
 ('skip_with_time',lambda d:(lambda xs,s: xs.pipe(ops.skip_with_time(d))),ref_skip_with_time,[0,5,30,100]),
 ('take_last_with_time',lambda d:(lambda xs,s: xs.pipe(ops.take_last_with_time(d))),ref_tlwt,[0,5,20]),
 ('skip_last_with_time',lambda d:(lambda xs,s: xs.pipe(ops.skip_last_with_time(d))),ref_slwt,[0,5,20]),
 ('timeout',lambda d:(lambda xs,s: xs.pipe(ops.timeout(d))),ref_timeout,[1,5,20]),
 ('sample',lambda d:(lambda xs,s: xs.pipe(ops.sample(d))),ref_sample,[5,20]),
]
rng=random.Random(int(sys.argv[1]) if len(sys.argv)>1 else 0)
for name,mk,ref,params in CASES:
    bad=0; first=None; total=0
    for _ in range(400):
        msgs=gen(rng); d=rng.choice(params)
        try:
            got,subs=run(msgs,mk(d))
        except Exception as e:
            got=[('RAISED',type(e).__name__, str(e)[:40])]
        exp=ref(msgs,d)
        got2=[(t,k,v) for (t,k,v) in got] if got and got[0][0]!='RAISED' else got
        total+=1
        if got2!=exp:
            bad+=1
            if first is None: first=(msgs,d,got2,exp)
    print(name,'mismatch',bad,'/',total, '' if first is None else '\n   first: msgs=%s d=%s\n     got=%s\n     exp=%s'%first)

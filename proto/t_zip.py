import sys; sys.path.insert(0,'/tmp/proto')
from ctl import Controller
import reactivex as rx
import reactivex.observable.zip as Z
from reactivex.subject import Subject
found = 0; runs = 0
import itertools
for seed,(first,p1,p2) in enumerate([(f,a,b) for f in (0,1) for a in range(0,120,1) for b in (a+1000,)]+[(f,a,b) for f in (0,1) for a in range(0,120,3) for b in range(a+1,120,3)]):
    ctl = Controller('reactivex/', seed=seed, pre=[p1,p2], first=first)
    IL = ctl.make_rlock()
    Z.RLock = IL
    s1, s2 = Subject(), Subject()
    # subject locks: leave real (uncontended in this test: each subject driven by one thread)
    active = [0]; overlap = [False]; log=[]
    class Obs:
        def _enter(self,k):
            active[0]+=1
            if active[0]>1: overlap[0]=True
            log.append(('enter',k))
            # yield point inside downstream call: emulate work
            me = ctl._me()
            if me: ctl._yield(me)
            log.append(('exit',k)); active[0]-=1
        def on_next(self,v): self._enter('N')
        def on_error(self,e): self._enter('E')
        def on_completed(self): self._enter('C')
    o = Obs()
    rx.zip(s1,s2).subscribe(o.on_next, o.on_error, o.on_completed)
    def t1(): s1.on_next(1); s1.on_next(2)
    def t2(): s2.on_next(10); s2.on_error(Exception('x'))
    ctl.spawn(t1); ctl.spawn(t2)
    ok = ctl.run(); runs += 1
    if overlap[0]:
        found += 1
        if found == 1: print('sched', (first,p1,p2), 'overlap log', log, 'steps', ctl.steps)
print('runs', runs, 'overlapping', found)
print('last log', log, 'trace', ctl.trace[:20])

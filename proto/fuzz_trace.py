"""Prototype of the event-trace correspondence: run real combinators over logged cold/hot sources on TestScheduler,
record the global tagged event list E, feed E to small Python state machines (the planned L2 models), compare outputs
and subscribe/unsubscribe effects."""
import random, sys
import reactivex as rx
from reactivex import operators as ops, Observable
from reactivex.testing import TestScheduler
from reactivex.disposable import Disposable, CompositeDisposable
ERR=Exception('boom')
class Src(Observable):
    def __init__(self, sched, sid, msgs, log, hot=False):
        super().__init__(); self.s=sched; self.sid=sid; self.msgs=msgs; self.log=log; self.hot=hot; self.obs=[]
        if hot:
            for (t,k,v) in msgs: sched.schedule_absolute(t, self._mk_hot(k,v))
    def _mk_hot(self,k,v):
        def act(*_):
            for o in self.obs[:]: self._deliver(o,k,v)
        return act
    def _deliver(self,o,k,v):
        self.log.append(('ev',self.sid,k,v,self.s.clock))
        if k=='N': o.on_next(v)
        elif k=='E': o.on_error(ERR)
        else: o.on_completed()
    def _subscribe_core(self, observer, scheduler=None):
        self.log.append(('sub',self.sid,self.s.clock))
        if self.hot:
            self.obs.append(observer)
            def d(): self.obs.remove(observer); self.log.append(('unsub',self.sid,self.s.clock))
            return Disposable(d)
        disp=CompositeDisposable()
        for (t,k,v) in self.msgs:
            disp.add(self.s.schedule_relative(t, (lambda k,v: lambda *_: self._deliver(observer,k,v))(k,v)))
        def d(): self.log.append(('unsub',self.sid,self.s.clock)); disp.dispose()
        return Disposable(d)
def gen_tl(rng, base=0, maxn=4, span=40):
    n=rng.randint(0,maxn); ts=sorted(rng.randint(1,span) for _ in range(n))
    m=[(base+t,'N',None) for t in ts]; last=ts[-1] if ts else 1
    r=rng.random()
    if r<0.5: m.append((base+rng.randint(last,last+10),'C',None))
    elif r<0.7: m.append((base+rng.randint(last,last+10),'E',None))
    return m
# ---------- L2 models (python mirrors of the planned Lean state machines) ----------
class M:
    def __init__(s): s.out=[]; s.eff=[]; s.live=set(); s.done=False
    def emit(s,k,v,t):
        if s.done: return
        s.out.append((t,k,v))
        if k!='N': s.done=True; s.dispose_all(t)
    def sub(s,i,t): s.live.add(i); s.eff.append(('sub',i,t))
    def unsub(s,i,t):
        if i in s.live: s.live.discard(i); s.eff.append(('unsub',i,t))
    def dispose_all(s,t):
        for i in sorted(s.live, key=s.order): s.unsub(i,t)
    order=staticmethod(lambda i:i)
class Zip(M):
    def __init__(s,n): super().__init__(); s.n=n; s.q=[[] for _ in range(n)]; s.c=[False]*n
    def start(s,t):
        for i in range(s.n): s.sub(i,t)
    def ev(s,i,k,v,t):
        if i not in s.live: return
        if k=='N':
            s.q[i].append(v)
            if all(s.q):
                tup=tuple(q.pop(0) for q in s.q); s.emit('N',tup,t)
                if any(s.c[j] and not s.q[j] for j in range(s.n)): s.emit('C',None,t)
        elif k=='E': s.emit('E',None,t); s.unsub(i,t)
        else:
            s.c[i]=True
            if not s.q[i]: s.emit('C',None,t)
            s.unsub(i,t)
class CombineLatest(M):
    def __init__(s,n): super().__init__(); s.n=n; s.has=[False]*n; s.vals=[None]*n; s.dn=[False]*n; s.all=False
    def start(s,t):
        for i in range(s.n): s.sub(i,t)
    def ev(s,i,k,v,t):
        if i not in s.live: return
        if k=='N':
            s.vals[i]=v; s.has[i]=True; s.all=s.all or all(s.has)
            if s.all: s.emit('N',tuple(s.vals),t)
            elif all(d for j,d in enumerate(s.dn) if j!=i): s.emit('C',None,t)
        elif k=='E': s.emit('E',None,t); s.unsub(i,t)
        else:
            s.dn[i]=True
            if all(s.dn): s.emit('C',None,t)
            s.unsub(i,t)
class Merge(M):  # merge(max_concurrent) over outer id 'o' and inners 0..; outer events carry inner id as value
    def __init__(s,maxc): super().__init__(); s.maxc=maxc; s.active=0; s.q=[]; s.stopped=False
    order=staticmethod(lambda i:(0,0) if i=='o' else (1,0))
    def start(s,t): s.sub('o',t)
    def dispose_all(s,t):
        # group order: outer was added last in merge_(max_concurrent)? group.add(source.subscribe) happens at end; inner subs added later
        for i in list(s.grp):
            s.unsub(i,t)
    grp=None
    def sub(s,i,t):
        super().sub(i,t)
        if s.grp is None: s.grp=[]
        s.grp.append(i)
    def unsub(s,i,t):
        if i in s.live: s.grp.remove(i)
        super().unsub(i,t)
    def ev(s,i,k,v,t):
        if i not in s.live: return
        if i=='o':
            if k=='N':
                if s.active<s.maxc: s.active+=1; s.sub(v,t)
                else: s.q.append(v)
            elif k=='E': s.emit('E',None,t); s.unsub('o',t)
            else:
                s.stopped=True
                if s.active==0: s.emit('C',None,t)
                s.unsub('o',t)
        else:
            if k=='N': s.emit('N',v,t)
            elif k=='E': s.emit('E',None,t); s.unsub(i,t)
            else:
                s.unsub(i,t)
                if s.q: s.sub(s.q.pop(0),t)
                else:
                    s.active-=1
                    if s.stopped and s.active==0: s.emit('C',None,t)
class Switch(M):
    def __init__(s): super().__init__(); s.latest=None; s.has=False; s.stopped=False
    def start(s,t): s.sub('o',t)
    def dispose_all(s,t):
        for i in ['o']+[x for x in s.live if x!='o']: s.unsub(i,t)
    def ev(s,i,k,v,t):
        if i not in s.live: return
        if i=='o':
            if k=='N':
                if s.latest is not None: s.unsub(s.latest,t)
                s.latest=v; s.has=True; s.sub(v,t)
            elif k=='E': s.emit('E',None,t); s.unsub('o',t)
            else:
                s.stopped=True
                if not s.has: s.emit('C',None,t)
                s.unsub('o',t)
        elif i==s.latest:
            if k=='N': s.emit('N',v,t)
            elif k=='E': s.emit('E',None,t); s.unsub(i,t)
            else:
                s.has=False
                if s.stopped: s.emit('C',None,t)
                s.unsub(i,t)
def run_real(kind, rng):
    s=TestScheduler(); log=[]
    if kind in ('zip','combine_latest'):
        n=rng.randint(1,3); srcs=[Src(s,i,gen_tl(rng,base=(200 if hot else 0)),log,hot) for i in range(n) for hot in [rng.random()<0.4]]
        for i,x in enumerate(srcs):
            for j,m in enumerate(x.msgs): x.msgs[j]=(m[0],m[1],(i,j))
        # hot sources were scheduled with value None; fix by recreating
        srcs=[Src(s,i,x.msgs,log,x.hot) if not x.hot else x for i,x in enumerate(srcs)]
        for x in srcs:
            if x.hot: x.msgs=[(t,k,(x.sid,j)) for j,(t,k,_) in enumerate(x.msgs)]
        obs=(rx.zip if kind=='zip' else rx.combine_latest)(*srcs); model=(Zip if kind=='zip' else CombineLatest)(n)
    else:
        ninn=rng.randint(0,4)
        inners=[Src(s,i,[(t,k,j) for j,(t,k,_) in enumerate(gen_tl(rng))],log) for i in range(ninn)]
        ots=sorted(rng.randint(1,40) for _ in range(ninn))
        om=[(t,'N',i) for i,t in enumerate(ots)]
        r=rng.random(); last=ots[-1] if ots else 1
        if r<0.6: om.append((rng.randint(last,last+30),'C',None))
        elif r<0.75: om.append((rng.randint(last,last+30),'E',None))
        outer=Src(s,'o',om,log)
        mapped=outer.pipe(ops.map(lambda i: inners[i]))
        if kind=='merge':
            mc=rng.randint(1,3); obs=mapped.pipe(ops.merge(max_concurrent=mc)); model=Merge(mc)
        else: obs=mapped.pipe(ops.switch_latest()); model=Switch()
    r=s.start(lambda: obs)
    out=[(int(m.time),m.value.kind,m.value.value if m.value.kind=='N' else None) for m in r.messages]
    return log,out,model
def check(kind, rng):
    log,out,model=run_real(kind,rng)
    model.start(200)
    real_eff=[]
    for e in log:
        if e[0]=='ev':
            _,sid,k,v,t=e
            if isinstance(model,(Zip,CombineLatest)) or sid=='o': model.ev(sid,k,v,int(t))
            else: model.ev(sid,k,v,int(t))
        else: real_eff.append((e[0],e[1],int(e[2])))
    if 1000 and model.live: model.dispose_all(1000)
    mout=[(t,k,(v if k=='N' else None)) for (t,k,v) in model.out]
    # normalise values
    def nv(o):
        t,k,v=o
        return (t,k,v)
    ok_out = [nv(o) for o in out]==[nv(o) for o in mout]
    ok_eff = real_eff==model.eff
    return ok_out, ok_eff, (log,out,mout,real_eff,model.eff)
rng=random.Random(int(sys.argv[1]) if len(sys.argv)>1 else 0)
for kind in ('zip','combine_latest','merge','switch'):
    bo=be=0; first=None
    for _ in range(300):
        try:
            a,b,info=check(kind,rng)
        except Exception as e:
            import traceback; traceback.print_exc(); a=b=False; info=repr(e); 
        if not a: bo+=1
        if not b: be+=1
        if (not a or not b) and first is None: first=info
    print(kind,'output mismatches',bo,'effect mismatches',be,'/300')
    if first:
        if isinstance(first,tuple):
            print('  out ',first[1]); print('  mout',first[2]); print('  reff',first[3]); print('  meff',first[4]); print('  log ',first[0][:12])
        else: print(first)

/-! Experiment: ADO grammar + take operator + N-thread dispose -/
inductive Notif (α : Type) | next (v : α) | error (e : Nat) | completed
deriving Repr, DecidableEq

inductive AdoCall (α : Type) | next (v : α) | error (e : Nat) | completed | dispose | fail (e : Nat)

structure Ado where
  stopped : Bool := false
deriving Repr

def Ado.step {α} (s : Ado) : AdoCall α → Ado × Option (Notif α)
  | .next v => if s.stopped then (s, none) else (s, some (.next v))
  | .error e => if s.stopped then (s, none) else ({stopped := true}, some (.error e))
  | .completed => if s.stopped then (s, none) else ({stopped := true}, some .completed)
  | .dispose => ({stopped := true}, none)
  | .fail e => if s.stopped then (s, none) else ({stopped := true}, some (.error e))

def Ado.run {α} : Ado → List (AdoCall α) → List (Notif α)
  | _, [] => []
  | s, c :: cs =>
    match s.step c with
    | (s', some n) => n :: Ado.run s' cs
    | (s', none) => Ado.run s' cs

def Notif.isTerminal {α} : Notif α → Bool
  | .next _ => false
  | _ => true

/-- grammar: next* (terminal)? -/
def Grammar {α} : List (Notif α) → Prop
  | [] => True
  | [_] => True
  | n :: rest => n.isTerminal = false ∧ Grammar rest

theorem run_stopped {α} (cs : List (AdoCall α)) : Ado.run {stopped := true} cs = [] := by
  induction cs with
  | nil => rfl
  | cons c cs ih => cases c <;> simp [Ado.run, Ado.step, ih]

theorem ado_grammar {α} (s : Ado) (cs : List (AdoCall α)) : Grammar (Ado.run s cs) := by
  induction cs generalizing s with
  | nil => simp [Ado.run, Grammar]
  | cons c cs ih =>
    cases s with | mk st =>
    cases st
    · cases c <;> simp [Ado.run, Ado.step, run_stopped, Grammar]
      · have := ih {stopped := false}
        generalize Ado.run {stopped := false} cs = r at *
        cases r <;> simp_all [Grammar, Notif.isTerminal]

    · simp [run_stopped, Grammar]

#print axioms ado_grammar

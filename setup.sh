#!/bin/sh
# Build every Lean library (models, generated tables, proofs) and every model driver, offline.
set -e
HERE="$(cd "$(dirname "$0")" && pwd)"
cd "$HERE/lean"
EXES=$(grep -A1 '^\[\[lean_exe\]\]' lakefile.toml | sed -n 's/^name = "\(.*\)"/\1/p')
# regenerate the RxGen tables from the current /repo before building
PYTHONPATH="$HERE/harness:${VERIF_REPO:-/repo}" /venv/bin/python "$HERE/harness/regen_all.py" || true
lake build RxModel RxGen RxProofs Driver $EXES
for e in $EXES; do test -x .lake/build/bin/$e; done
echo setup-ok

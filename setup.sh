#!/bin/sh
# Build the Lean models, generated tables, proofs and model drivers, offline. Robust against one broken module:
# everything is built per target, a failing target is reported and left to its check to flag.
HERE="$(cd "$(dirname "$0")" && pwd)"
cd "$HERE/lean"
export PYTHONPATH="$HERE/harness:${VERIF_REPO:-/repo}" PYTHONDONTWRITEBYTECODE=1
# regenerate the RxGen tables from the current /repo before building
/venv/bin/python "$HERE/harness/regen_all.py" || true
EXES=$(grep -A1 '^\[\[lean_exe\]\]' lakefile.toml | sed -n 's/^name = "\(.*\)"/\1/p')
FAIL=""
lake build RxModel RxGen RxProofs Driver $EXES > /tmp/rxverif_setup.log 2>&1 || {
  echo "bulk build failed; building per target"; tail -5 /tmp/rxverif_setup.log
  TARGETS=$(/venv/bin/python -c "
import json,importlib,sys
sys.path.insert(0,'$HERE/harness')
t=[]
for p in json.load(open('$HERE/harness/claimed.json')):
    m=importlib.import_module('props.'+p)
    t+=list(getattr(m,'LEAN_TARGETS',[]))+([m.DRIVER] if getattr(m,'DRIVER',None) else [])
print(' '.join(dict.fromkeys(t)))")
  for t in $TARGETS; do lake build $t > /tmp/rxverif_setup_t.log 2>&1 || { FAIL="$FAIL $t"; tail -3 /tmp/rxverif_setup_t.log; }; done
}
[ -n "$FAIL" ] && echo "setup: targets that failed to build:$FAIL"
echo setup-ok

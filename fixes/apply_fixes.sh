#!/bin/sh
# lead-only helper: apply the named fix patches to /repo, run the full suite once, commit each as its own "fix:" commit
set -e
cd /repo
for n in "$@"; do git apply --check /verif/fixes/$n.patch; done
for n in "$@"; do git apply /verif/fixes/$n.patch; done
/venv/bin/python -m pytest -q -p no:cacheprovider --timeout=900 2>&1 | tail -2
for n in "$@"; do
  files=$(grep '^+++ b/' /verif/fixes/$n.patch | sed 's#^+++ b/##')
  git add $files
  git commit -q -F /verif/fixes/$n.msg
  echo "$n -> $(git log --oneline | head -1)"
done

#!/bin/sh
# lead-only helper: apply the named fix patches to /repo (skipping ones already applied), run the full suite once (abort on failure),
# commit each patch's files as its own "fix:" commit
set -e
cd /repo
for n in "$@"; do
  if git apply --check /verif/fixes/$n.patch 2>/dev/null; then git apply /verif/fixes/$n.patch; else echo "note: $n does not apply (already applied?)"; fi
done
/venv/bin/python -m pytest -q -p no:cacheprovider --timeout=900 > /tmp/apply_fixes_pytest.log 2>&1 || { tail -5 /tmp/apply_fixes_pytest.log; echo "SUITE FAILED - nothing committed"; exit 1; }
tail -1 /tmp/apply_fixes_pytest.log
for n in "$@"; do
  files=$(grep '^+++ b/' /verif/fixes/$n.patch | sed 's#^+++ b/##')
  git add $files
  if git diff --cached --quiet; then echo "$n: nothing to commit"; else git commit -q -F /verif/fixes/$n.msg; echo "$n -> $(git log --oneline | head -1)"; fi
done

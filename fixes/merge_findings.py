"""lead-only: merge reviewed fixes/*_findings.json proposals into known_findings.json (never run by a check)."""
import glob, json, sys
p = '/verif/known_findings.json'
d = json.load(open(p))
have = {f['id'] for f in d['findings']}
for fn in sorted(glob.glob('/verif/fixes/*_findings.json')):
    if sys.argv[1:] and not any(a in fn for a in sys.argv[1:]):
        continue
    j = json.load(open(fn)); items = j['findings'] if isinstance(j, dict) else j
    for f in items:
        if f['id'] not in have:
            d['findings'].append(f); have.add(f['id']); print('added', f['id'])
json.dump(d, open(p, 'w'), indent=1)
